"""C06 — ionization and thermal balance return a physical state (DESIGN §6 C06)."""
import glob
import math
import os
import re
import shutil
import tempfile
import simrun
import vlib

SOURCES = ["IonizationStateCalculator.cpp", "TemperatureCalculator.cpp", "VernerRecombinationRates.cpp",
           "ChargeTransferRates.cpp", "LineCoolingData.cpp", "VernerCrossSections.cpp"]
REL = 1e-10
NU_H, NU_HE = 3.288e15, 5.948e15

B = vlib.f2bits


def harness_extra():
    """include paths of the external libraries the headers pull in (HDF5, MPI), taken from the
    configured build tree, and the few real .cpp files the harness links"""
    vlib.ensure_configured()
    incs = []
    try:
        txt = open(os.path.join(vlib.FULL, "build.ninja")).read()
        for m in re.finditer(r"(?:-I|-isystem )(/\S+)", txt):
            p = m.group(1)
            if p.startswith(vlib.REPO) or p.startswith(vlib.FULL) or p in incs:
                continue
            incs.append(p)
    except OSError:
        pass
    if not incs:
        incs = ["/usr/include/hdf5/serial", "/usr/lib/x86_64-linux-gnu/openmpi/include"]
    flags = ["-DOMPI_SKIP_MPICXX"] + ["-I" + p for p in incs]
    # the real .cpp files are recompiled from the current tree on every run, in parallel, with
    # exactly the flags vlib.build_harness uses for the harness itself; the objects are linked in
    from concurrent.futures import ThreadPoolExecutor
    objdir = os.path.join(vlib.BUILD, "c06_obj")
    os.makedirs(objdir, exist_ok=True)
    cfg = os.path.join(vlib.FULL, "src")
    base = ["g++", "-std=c++11", "-O1", "-g", "-ffp-contract=off", "-Wno-cpp", "-fopenmp", "-D" + vlib.GUARD,
            "-I" + os.path.join(vlib.REPO, "src"), "-I" + cfg] + flags

    def cc(src):
        obj = os.path.join(objdir, src.replace(".cpp", ".o"))
        rc, out = vlib.sh(base + ["-c", os.path.join(vlib.REPO, "src", src), "-o", obj])
        return src, obj, rc, out
    with vlib.Lock("c06obj"):
        with ThreadPoolExecutor(max_workers=len(SOURCES)) as ex:
            res = list(ex.map(cc, SOURCES))
    for src, obj, rc, out in res:
        if rc != 0:
            raise vlib.HarnessBuildError("c06 (%s)" % src, out)
    return flags + [obj for _, obj, _, _ in res]


# ----------------------------------------------------------------------------- generators

def logu(rng, lo, hi):
    return 10.0 ** rng.uniform(lo, hi)


def gen_spectrum(rng):
    kind = rng.choice(["soft", "soft", "hard", "mix", "mix", "mix", "threshold", "line-He", "wide"])
    K = rng.randint(1, 5)
    nus = []
    for _ in range(K):
        if kind == "soft":            # no helium-ionizing photons at all
            nu = rng.uniform(NU_H, NU_HE * 0.999)
        elif kind == "hard":
            nu = rng.uniform(NU_HE, 4 * NU_H)
        elif kind == "threshold":
            nu = rng.choice([NU_H, NU_HE, math.nextafter(NU_HE, 0), math.nextafter(NU_HE, 1e99), 4 * NU_H])
        elif kind == "line-He":
            nu = rng.choice([5.948e15 * 1.0001, 6.0e15])
        elif kind == "wide":
            nu = NU_H * 10 ** rng.uniform(0, 2)
        else:
            nu = NU_H * 10 ** rng.uniform(0, math.log10(4))
        nus.append(nu)
    ws = [rng.random() + 1e-3 for _ in range(K)]
    s = sum(ws)
    ws = [x / s for x in ws]
    if kind == "mix" and K > 1 and rng.random() < 0.3:
        ws[0] *= 1e-8                                  # strongly unequal mixture
    toks = [str(K)]
    for nu, x in zip(nus, ws):
        toks += [str(B(nu)), str(B(x))]
    return kind, toks


def gen_trace_spectrum(rng):
    """soft spectrum with a trace (1e-12..1e-3) of helium-ionizing photons"""
    nu1 = rng.uniform(NU_H, NU_HE * 0.99)
    nu2 = rng.uniform(NU_HE * 1.001, 4 * NU_H)
    return [str(2), str(B(nu1)), str(B(1.0)), str(B(nu2)), str(B(10.0 ** rng.uniform(-12, -3)))]


def gen_nearneutral(rng):
    """flux and density for which hydrogen is almost neutral (jH just above the 1e-20
    shortcut, high density): 1 - h0 ~ 1e-7..1e-4"""
    return 10.0 ** rng.uniform(1.3, 6), 10.0 ** rng.uniform(9, 12)


def gen_flux(rng):
    """23 decades of flux (photons m^-2 s^-1 scale) incl. exactly 0"""
    r = rng.random()
    if r < 0.06:
        return 0.0
    return 10.0 ** rng.uniform(-5, 18)


def gen_n(rng):
    r = rng.random()
    if r < 0.05:
        return 0.0
    if r < 0.10:
        return rng.choice([1e4, 1e12])
    return logu(rng, 4, 12)


def gen_T(rng):
    r = rng.random()
    if r < 0.08:
        return rng.choice([1e2, 1e5, 4000.0, 8000.0, 3e4, 1e4])
    return logu(rng, 2, 5)


def gen_AHe(rng):
    r = rng.random()
    if r < 0.15:
        return 0.0
    if r < 0.3:
        return rng.choice([0.1, 0.15, 1e-6])
    return rng.uniform(0, 0.15)


def gen_h0(rng):
    kind = rng.choice(["generic", "generic", "T", "switch", "floor", "zero", "hugeC"])
    aH = logu(rng, -20, -17)
    nH = logu(rng, 4, 12)
    if kind == "generic":
        jH = logu(rng, -31, -3)
    elif kind == "T":
        return "h0T %d %d %d" % (B(logu(rng, -31, -3)), B(nH), B(gen_T(rng)))
    elif kind == "switch":          # around bb = 1e-10, i.e. C = jH/(nH aH) = 4e10
        jH = 4e10 * nH * aH * (1 + rng.choice([0, 1e-15, -1e-15, 1e-9, -1e-9, 1e-3, -1e-3]))
    elif kind == "floor":           # C > 1e14: Taylor value below the 1e-14 floor
        jH = nH * aH * logu(rng, 13.5, 16)
    elif kind == "hugeC":           # the regime where 1 + aa (1 - cc) cancelled
        jH = nH * aH * logu(rng, 6, 10.6)
    else:
        jH, nH = rng.choice([(0.0, nH), (1e-9, 0.0), (0.0, 0.0)])
    return "h0 %d %d %d" % (B(aH), B(jH), B(nH))


def gen_h0m(rng):
    aH = logu(rng, -20, -17)
    nH = logu(rng, 4, 12)
    jH = nH * aH * logu(rng, -6, 15) if rng.random() < 0.7 else logu(rng, -31, -3)
    d = rng.choice([1e-15, 1e-12, 1e-9, 1e-6, 1e-3, 0.1, 1.0, 10.0])
    which = rng.choice(["J", "J", "n", "a"])
    if rng.random() < 0.15:         # pair straddling the branch switch C = 4e10
        jH = 4e10 * nH * aH * (1 - 0.5 * d if d < 1 else 0.5)
    if which == "J":
        return "h0m %d %d %d %d %d %d" % (B(aH), B(jH), B(nH), B(aH), B(jH * (1 + d)), B(nH))
    if which == "n":
        return "h0m %d %d %d %d %d %d" % (B(aH), B(jH), B(nH), B(aH), B(jH), B(nH / (1 + d)))
    return "h0m %d %d %d %d %d %d" % (B(aH), B(jH), B(nH), B(aH / (1 + d)), B(jH), B(nH))


def gen_met(rng):
    T = gen_T(rng)
    kind = rng.choice(["phys", "phys", "phys", "zero-j", "ne0", "allzero", "synthetic", "huge-j"])
    j = [logu(rng, -30, -4) if rng.random() < 0.8 else 0.0 for _ in range(12)]
    n = logu(rng, 4, 12)
    x = rng.random() ** 3
    ne, nh0, nhe0, nhp = n * (1 - x) * 1.1, n * x, 0.1 * n * rng.random(), n * (1 - x)
    tail = ["V"]
    if kind == "zero-j":
        j = [0.0] * 12
    elif kind == "ne0":             # excluded point of metals_range: no free electrons
        ne = 0.0
        if rng.random() < 0.5:
            nhp = 0.0
    elif kind == "allzero":         # excluded point: every denominator 0
        ne, nh0, nhe0, nhp = 0.0, 0.0, 0.0, 0.0
        tail = [str(B(0.0))] * 12
    elif kind == "synthetic":
        tail = [str(B(logu(rng, -22, -15) if rng.random() < 0.85 else 0.0)) for _ in range(12)]
    elif kind == "huge-j":
        j = [logu(rng, -4, 6) for _ in range(12)]
    toks = ["metraw", str(B(T))] + [str(B(v)) for v in j] + [str(B(v)) for v in (ne, nh0, nhe0, nhp)] + tail
    return " ".join(toks)


def gen_hhe(rng):
    if rng.random() < 0.12:
        F, nH = gen_nearneutral(rng)
        return "hhespec %d %d %d %d %s" % (B(F), B(nH), B(rng.uniform(0.01, 0.15)), B(gen_T(rng)), " ".join(gen_trace_spectrum(rng)))
    if rng.random() < 0.7:
        kind, sp = gen_spectrum(rng)
        F = gen_flux(rng)
        if F == 0.0:
            F = 1e-30
        nH = gen_n(rng) or 1e6
        AHe = gen_AHe(rng) or 0.1
        return "hhespec %d %d %d %d %s" % (B(F), B(nH), B(AHe), B(gen_T(rng)), " ".join(sp))
    # outside the stated domain: arbitrary ratio of the two integrals
    jH = logu(rng, -25, -3)
    jHe = rng.choice([0.0, jH * logu(rng, -6, 8)])
    return "hhexraw %d %d %d %d %d" % (B(jH), B(jHe), B(logu(rng, 2, 14)), B(rng.uniform(0, 0.5)), B(logu(rng, 1.5, 6)))


def gen_cell(rng):
    r = rng.random()
    if r < 0.1:
        F, nH = gen_nearneutral(rng)
        return "cellspec %d %d %d %d %s" % (B(F), B(nH), B(gen_T(rng)), B(rng.uniform(0.01, 0.15)), " ".join(gen_trace_spectrum(rng)))
    if r < 0.85:
        kind, sp = gen_spectrum(rng)
        F = gen_flux(rng)
        if rng.random() < 0.15:     # jH between 0 and the 1e-20 shortcut: no free electrons
            F = 10.0 ** rng.uniform(-12, 1)
        return "cellspec %d %d %d %d %s" % (B(F), B(gen_n(rng)), B(gen_T(rng)), B(gen_AHe(rng)), " ".join(sp))
    mean = [logu(rng, -26, -18) if rng.random() < 0.8 else 0.0 for _ in range(14)]
    return "cellxraw %d %d %d %d %s" % (B(logu(rng, -5, 18)), B(gen_n(rng)), B(gen_T(rng)), B(rng.uniform(0, 0.3)),
                                        " ".join(str(B(v)) for v in mean))


def gen_temp(rng):
    jfac = gen_flux(rng)
    if rng.random() < 0.06:         # jH between 0 and the 1e-20 shortcut: no free electrons, no cooling
        jfac = 10.0 ** rng.uniform(-12, 1)
    n = gen_n(rng)
    Told = gen_T(rng)
    AHe = gen_AHe(rng)
    ab = [rng.choice([0.0, 1e-3, v]) if rng.random() < 0.2 else v
          for v in (2.2e-4 * rng.random() * 4, 4e-5 * rng.random() * 4, 3.3e-4 * rng.random() * 3, 5e-5 * rng.random() * 4, 9e-6 * rng.random() * 4)]
    pah = rng.choice([0.0, 0.0, 1.0, 10.0])
    crfac = rng.choice([0.0, 0.0, 0.0, 1.0, 1e-3, 100.0])
    crcell = rng.choice([-1.0, -1.0, 0.0, 0.5, 2.0])
    crlim = rng.choice([0.75, 0.75, 0.0, 1.0, 0.01])
    crscale = rng.choice([0.0, 4.1e19])
    z = rng.choice([0.0, 1e19, -3e19])
    eps = rng.choice([1e-3, 1e-3, 1e-3, 1e-2, 1e-6, 0.5, 1.0, 2.0, 0.0])
    tmin = rng.choice([4000.0, 4000.0, 4000.0, 1000.0, 8000.0, 500.0, 100.0, 20000.0])
    maxit = rng.choice([100, 100, 100, 1, 0, 3, 20])
    sc = [jfac, n, Told, AHe] + ab + [pah, crfac, crcell, crlim, crscale, z, eps, tmin]
    if rng.random() < 0.08:
        sc[0], sc[1] = gen_nearneutral(rng)
        sc[3] = rng.uniform(0.01, 0.15)
        return "tempspec " + " ".join(str(B(v)) for v in sc) + " %d " % maxit + " ".join(gen_trace_spectrum(rng))
    if rng.random() < 0.12:
        # outside the domain: negative PAH factor, so that the net gain falls through zero with
        # rising temperature (expgain = -99 branch)
        sc[0], sc[1], sc[3] = logu(rng, 9, 13), logu(rng, 6, 10), rng.uniform(0.0, 0.15)
        sc[9], sc[10] = -logu(rng, -1, 1.3), 0.0
        sc[15], sc[16] = 1e-3, rng.choice([100.0, 4000.0])
        kind, sp = gen_spectrum(rng)
        return "tempxspec " + " ".join(str(B(v)) for v in sc) + " 100 " + " ".join(sp)
    if rng.random() < 0.9:
        kind, sp = gen_spectrum(rng)
        return "tempspec " + " ".join(str(B(v)) for v in sc) + " %d " % maxit + " ".join(sp)
    # outside the domain: estimators no spectrum can produce (e.g. heating without intensity)
    mean = [logu(rng, -26, -18) if rng.random() < 0.7 else 0.0 for _ in range(14)]
    heat = [rng.choice([0.0, logu(rng, -12, -2), -logu(rng, -12, -2)]) for _ in range(2)]
    hfac = jfac * 6.626e-34 * rng.choice([1.0, 1e3, 0.0])
    fam = rng.choice(["free", "free", "tie-low", "climb", "signflip", "signflip"])
    if fam == "climb":
        # no heating, hot start: T0 climbs by 10% per body up to 1e9..1e10 K (upper clamp)
        hfac, sc[9], sc[10] = 0.0, 0.0, 0.0
        sc[1] = logu(rng, 6, 10)
        sc[0] = jfac = logu(rng, 8, 14)
        sc[2] = 1e5 * rng.uniform(0.7, 1.0)
        sc[16] = rng.choice([100.0, 4000.0])
        sc[15] = 1e-3
        maxit = rng.choice([100, 100, 150])
    elif fam == "tie-low":
        # no heating at all: every body takes T0 = 1.1 T0; the minimum ionized temperature is
        # put exactly on one of these values (tie of the `<` in the lower clamp)
        hfac, sc[9], sc[10] = 0.0, 0.0, 0.0            # no photo-heating, PAH, cosmic rays
        sc[1] = logu(rng, 6, 10)
        sc[0] = jfac = logu(rng, 8, 14)
        tinit = 8000.0 if Told <= 4000.0 else Told
        t = tinit
        for _ in range(rng.randint(1, 3)):
            t = 1.1 * t
        sc[16] = t
        sc[15] = 1e-3
        maxit = rng.choice([5, 100])
    elif fam == "signflip":
        # heating integrals of opposite sign: the net gain changes sign with temperature
        sc[0] = jfac = logu(rng, 8, 14)
        sc[1] = logu(rng, 6, 10)
        sc[3] = rng.uniform(0.05, 0.15)
        mean[0], mean[1] = logu(rng, -23, -21), logu(rng, -23, -21)
        # negative hydrogen heating against positive PAH heating: the net gain rises through
        # zero with temperature (expgain = 99 branch); magnitudes balanced around 1e4 K
        mean[0] = logu(rng, -22.5, -21)
        mean[1] = mean[0] * rng.uniform(0, 1)
        heat = [-mean[0] * 1.2e15 * logu(rng, -0.5, 0.5), 0.0]
        hfac = jfac * 6.626e-34
        sc[9], sc[10] = logu(rng, -1, 1.3), 0.0
        sc[15], sc[16] = 1e-3, rng.choice([100.0, 4000.0])
        maxit = 100
    sc2 = [jfac, hfac] + sc[1:]
    return "tempxraw " + " ".join(str(B(v)) for v in sc2) + " %d " % maxit + " ".join(str(B(v)) for v in mean + heat)


def gen_temp_gminus(rng):
    """short runs outside the domain (negative PAH factor, random start temperature) that look
    for the `expgain = -99` branch: net gain positive at 0.9 T0 and zero at 1.1 T0"""
    sc = [logu(rng, 9, 13), logu(rng, 6, 10), logu(rng, 3.7, 5), rng.uniform(0, 0.15), 2.2e-4, 4e-5, 3.3e-4, 5e-5, 9e-6,
          -logu(rng, -1, 1), 0.0, -1.0, 0.75, 0.0, 0.0, 1e-3, rng.choice([100.0, 4000.0])]
    kind, sp = gen_spectrum(rng)
    return "tempxspec " + " ".join(str(B(v)) for v in sc) + " %d " % rng.choice([1, 2, 3, 5]) + " ".join(sp)


def gen_bal(rng):
    """one evaluation of compute_cooling_and_heating_balance: the parameters of a temperature
    update, evaluated at a temperature 1e2..1e6 K (the iteration leaves 1e2..1e5)"""
    t = gen_temp(rng)
    w = t.split()
    tidx = 4 if w[0] == "tempxraw" else 3
    w[tidx] = str(B(logu(rng, 2, 6) if rng.random() < 0.8 else gen_T(rng)))
    if rng.random() < 0.3:                       # cosmic ray heating on (with/without scale height)
        w[tidx + 8] = str(B(rng.choice([1.0, 1e-3, 100.0])))
    if w[0] == "tempspec":
        w[0] = "balspec"
    elif w[0] == "tempxraw":
        w[0] = "balxraw"
    else:
        return gen_bal(rng)
    return " ".join(w)


def gen_shape(rng, target):
    """a subgrid with NON-CUBIC cells (dx != dy != dz) and a luminosity / total weight such that
    L / (totweight * V) is the wanted normalisation factor"""
    base = logu(rng, -1, 18)
    r = rng.sample([0.37, 1.0, 2.5, 7.3, 0.11], 3)
    sides = [base * x for x in r]
    n = [rng.randint(1, 4) for _ in range(3)]
    V = (sides[0] / n[0]) * (sides[1] / n[1]) * (sides[2] / n[2])
    tw = logu(rng, 3, 7)
    L = target * tw * V
    return L, tw, sides, n


def shape_tokens(L, tw, sides, n):
    return [str(B(L)), str(B(tw))] + [str(B(x)) for x in sides] + [str(B(float(k))) for k in n]


def gen_sg(rng):
    """the subgrid-level wrappers: calculate_ionization_state(totweight, subgrid) directly, or
    through a TemperatureCalculator whose luminosity was updated from L0 to L"""
    target = gen_flux(rng)
    if target == 0.0 or rng.random() < 0.5:
        target = logu(rng, 6, 16)                # partially ionized .. strongly ionized cells
    L, tw, sides, nn = gen_shape(rng, target)
    n = gen_n(rng) or 1e8
    T = gen_T(rng)
    AHe = 0.0 if rng.random() < 0.5 else gen_AHe(rng)
    kind, sp = gen_spectrum(rng)
    tail = [str(B(n)), str(B(T)), str(B(AHe))] + sp
    if rng.random() < 0.5:
        return "sgcellspec " + " ".join(shape_tokens(L, tw, sides, nn) + tail)
    L0 = L * rng.choice([0.1, 10.0, 3.7, 1.0, 1e-3])
    return "sgionspec %d %d " % (rng.randint(0, 1), B(L0)) + " ".join(shape_tokens(L, tw, sides, nn) + tail)


def gen_sgtemp(rng):
    while True:
        t = gen_temp(rng).split()
        if t[0] == "tempspec":
            break
    target = vlib.bits2f(t[1]) or logu(rng, 8, 14)
    L, tw, sides, nn = gen_shape(rng, target)
    L0 = L * rng.choice([0.1, 10.0, 3.7, 1.0])
    return "sgtempspec %d " % B(L0) + " ".join(shape_tokens(L, tw, sides, nn) + t[1:])


def force_transition(rng, raw_op):
    """inside a history: sometimes switch the radiation off (exactly zero flux), make the cell a
    vacuum or drop the flux below the jH < 1e-20 shortcut, so that consecutive updates take
    different branches of the calculators"""
    r = rng.random()
    if r > 0.3:
        return raw_op
    w = raw_op.split()
    nidx = 3 if w[0] == "tempxraw" else 2
    if r < 0.14:
        w[1] = str(B(0.0))
        if w[0] == "tempxraw":
            w[2] = str(B(0.0))
    elif r < 0.22:
        w[nidx] = str(B(0.0))
    else:
        w[1] = str(B(10.0 ** rng.uniform(-12, 1)))
        if w[0] == "tempxraw":
            w[2] = str(B(vlib.bits2f(w[1]) * 6.626e-34))
    return " ".join(w)


HISTORY_OPS = ("cell", "cellx", "temp", "tempx", "abort")


def group_start(op):
    return op.split(" ", 1)[0] not in HISTORY_OPS


# ----------------------------------------------------------------------------- whole binary
# The glue between the photon estimators and the balance (normalisation of the counters by the
# abundances, jfac/hfac, loop over cells, snapshot) is exercised through the real front door:
# short `CMacIonize --task-based` runs; oracle on the final Gadget snapshot.

IONS = ["H", "He", "C+", "C++", "N", "N+", "N++", "O", "O+", "Ne", "Ne+", "S+", "S++", "S+++"]
STAGES = {"C": ["C+", "C++"], "N": ["N", "N+", "N++"], "O": ["O", "O+"], "Ne": ["Ne", "Ne+"], "S": ["S+", "S++", "S+++"]}
DEFAULT_AB = [0.1, 2.2e-4, 4.e-5, 3.3e-4, 5.e-5, 9.e-6]


def sim_param(c):
    n, s, ab = c.get("ncell", 8), c.get("nsub", 2), c["ab"]
    cells = c.get("cells", (n, n, n))            # non-cubic cells: e.g. (4, 2, 8) in the unit cube
    subs = c.get("subs", (s, s, s))
    t = """SimulationBox:
  anchor: [0. m, 0. m, 0. m]
  sides: [1. m, 1. m, 1. m]
  periodicity: [false, false, false]
DensityGrid:
  number of cells: [%d, %d, %d]
DensitySubGridCreator:
  number of subgrids: [%d, %d, %d]
DensityFunction:
  type: Homogeneous
  density: %s
  temperature: 8000. K
TemperatureCalculator:
  do temperature calculation: %s
  minimum number of iterations: 0
Abundances:
  helium: %r
  carbon: %r
  nitrogen: %r
  oxygen: %r
  neon: %r
  sulphur: %r
PhotonSourceSpectrum:
  type: Monochromatic
  frequency: %g eV
PhotonSourceDistribution:
  type: SingleStar
  position: [0.55 m, 0.55 m, 0.55 m]
  luminosity: %s s^-1
DensityGridWriter:
  type: Gadget
  prefix: snap
  padding: 3
DensityGridWriterFields:
  Temperature: 1
""" % (cells[0], cells[1], cells[2], subs[0], subs[1], subs[2], c.get("density", "100. cm^-3"), "true" if c["temperature"] else "false",
       ab[0], ab[1], ab[2], ab[3], ab[4], ab[5], c["ev"], c.get("lum", "1.e40"))
    for ion in IONS:
        t += "  NeutralFraction%s: 1\n" % ion
    t += """TaskBasedIonizationSimulation:
  number of iterations: %d
  number of photons: %d
  number of buffers: 20000
  queue size per thread: 5000
  shared queue size: 5000
  number of tasks: 20000
  source copy level: 2
""" % (c.get("iterations", 2), c.get("photons", 10000))
    return t


def read_snapshot(tool, path):
    rc, out, err = vlib.run_exe(tool, "", args=[path])
    data = {}
    for l in out.split("\n"):
        w = l.split(" ")
        if len(w) >= 4:
            data[w[0]] = [vlib.bits2f(x) for x in w[3:]]
    return data


def snapshot_oracle(data, temperature_on, tmin=4000.0, tbounds=True):
    """list of (key, description) for everything unphysical in the final snapshot"""
    bad = []
    need = ["Temperature"] + ["NeutralFraction" + i for i in IONS]
    for k in need:
        if k not in data:
            bad.append(("sim:snapshot-field-missing", "dataset %s not in the snapshot" % k))
    for k, v in data.items():
        nf = [i for i, x in enumerate(v) if not math.isfinite(x)]
        if nf:
            bad.append(("sim:not-finite", "%s: %d of %d values are NaN/inf (first: cell %d = %r)" % (k, len(nf), len(v), nf[0], v[nf[0]])))
    for i in IONS:
        v = data.get("NeutralFraction" + i, [])
        out = [j for j, x in enumerate(v) if math.isfinite(x) and not (-1e-12 <= x <= 1 + 1e-12)]
        if out:
            bad.append(("sim:fraction-range", "NeutralFraction%s: %d cells outside [0,1] (first: cell %d = %r)" % (i, len(out), out[0], v[out[0]])))
    for el, st in STAGES.items():
        cols = [data.get("NeutralFraction" + s) for s in st]
        if all(cols):
            for j in range(len(cols[0])):
                ssum = sum(c[j] for c in cols)
                if math.isfinite(ssum) and ssum > 1 + 1e-12:
                    bad.append(("sim:stage-sum-above-1", "%s: tracked stages sum to %r in cell %d" % (el, ssum, j)))
                    break
    T = data.get("Temperature", [])
    outT = [j for j, x in enumerate(T) if math.isfinite(x) and not (x == 500.0 or (tmin <= x <= 30000.0))]
    if outT and tbounds:
        bad.append(("sim:T-out-of-bounds", "Temperature: %d cells outside {500} u [%g, 30000] (first: cell %d = %r)" % (len(outT), tmin, outT[0], T[outT[0]])))
    return bad


def run_case(binary, tool, param, args=("--task-based",), threads=1):
    d = tempfile.mkdtemp(prefix="verif_c06sim_")
    try:
        res = simrun.run_sim(binary, param, list(args), threads=threads, timeout=120, trace=False, workdir=d)
        if res["timed_out"]:
            return [("sim:run-hangs", "run did not finish: " + res["log"][-300:])], {}
        if res["rc"] != 0:
            return [("sim:run-fails", "exit status %s: %s" % (res["rc"], res["log"][-400:]))], {}
        snaps = sorted(glob.glob(os.path.join(d, "snap*.hdf5")))
        if not snaps:
            return [("sim:no-snapshot", "no snapshot written: " + res["log"][-300:])], {}
        data = read_snapshot(tool, snaps[-1])
        # after a hydro step the temperature follows the pressure: only finiteness is required there
        return snapshot_oracle(data, "do temperature calculation: true" in param, tbounds="--task-based-rhd" not in args), data
    finally:
        shutil.rmtree(d, ignore_errors=True)


def glue_tie(ctx):
    """statement-level tie of `IonBalance.normalise`: the two task-based drivers must still
    normalise each counter with the guarded division (fails closed if the marker vanishes)"""
    want = re.compile(re.escape("for(int_fast32_tion=1;ion<NUMBER_OF_IONNAMES;++ion){constdoubleabundance=")
                      + "_?" + re.escape("abundances.get_abundance(get_element(ion));if(abundance>0.){vars.set_mean_intensity(ion,"
                                         "vars.get_mean_intensity(ion)/abundance);}}"))
    n = 0
    for f in ("TaskBasedIonizationSimulation.cpp", "TaskBasedRadiationHydrodynamicsSimulation.cpp"):
        try:
            txt = open(os.path.join(vlib.REPO, "src", f), encoding="utf-8").read()
        except OSError:
            ctx.broken_obligation("normalisation glue: %s not found" % f)
            continue
        pos = [m.end() for m in re.finditer(r"// correct the intensity counters for abundance factors", txt)]
        if not pos:
            ctx.broken_obligation("normalisation glue: marker comment 'correct the intensity counters for abundance factors' no longer in %s; the tie of IonBalance.normalise is lost" % f)
        for q in pos:
            chunk = re.sub(r"//[^\n]*", "", txt[q:q + 1500])
            flat = re.sub(r"\s+", "", chunk)
            if want.search(flat):
                n += 1
            else:
                ctx.broken_obligation("normalisation glue in %s no longer is `if (abundance > 0.) J = J / abundance` per counter (IonBalance.normalise, theorem normalise_zero_counter): %s" % (f, flat[:300]))
    ctx.cov["normalise_sites_tied"] = n


def sim_cases(ctx):
    rng = ctx.rng
    cases = []
    hard = lambda: rng.choice([45., 60., 100.])
    cases.append(dict(tag="default", ab=list(DEFAULT_AB), temperature=True, ev=hard(), lum="1.e14"))
    partners = set([0] + rng.sample(range(1, 6), ctx.budget(2, 5)))
    for k in range(6):
        c = dict(tag="zero-" + ELNAMES[k], ab=list(DEFAULT_AB), temperature=(k % 2 == 0) if not ctx.thorough else True,
                 ev=hard() if rng.random() < 0.7 else 20., lum=rng.choice(["1.e12", "1.e14"]), iterations=3)
        c["ab"][k] = 0.0
        if k in partners:
            c["temperature"] = True
            c["pair"] = k
        cases.append(c)
        if ctx.thorough:
            c2 = dict(c, temperature=False, tag=c["tag"] + "-notemp")
            c2.pop("pair", None)
            cases.append(c2)
    for _ in range(ctx.budget(2, 12)):
        ab = [rng.choice([0.0, 1e-6, d]) for d in DEFAULT_AB]
        cases.append(dict(tag="mixed", ab=ab, temperature=rng.random() < 0.6, ev=rng.choice([20., 45., 60., 100.]),
                          lum=rng.choice(["1.e11", "1.e13", "1.e16"]), threads=rng.choice([1, 2]),
                          ncell=rng.choice([8, 8, 16]) if ctx.thorough else 8, **rng.choice(SHAPES)))
    return cases


ELNAMES = ["He", "C", "N", "O", "Ne", "S"]
# cell shapes in the unit cube: cubic, and three non-cubic ones (dx != dy != dz)
SHAPES = [dict(), dict(cells=(4, 2, 8), subs=(2, 1, 2)), dict(cells=(2, 8, 4), subs=(1, 2, 2)), dict(cells=(16, 4, 4), subs=(2, 2, 2))]


def sim_stream(ctx):
    binary = vlib.full_binary()
    tool = vlib.build_harness("c06_snap")
    st = ctx.cov["correspondence_streams"].setdefault("whole-binary", {"lines": 0, "mismatches": 0, "oracle_failures": 0})
    mean = lambda v: sum(v) / max(1, len(v))
    for c in sim_cases(ctx):
        param = sim_param(c)
        bad, data = run_case(binary, tool, param, threads=c.get("threads", 1))
        st["lines"] += 1
        ctx.count()
        ctx.branch("sim-" + c["tag"] + ("-T" if c["temperature"] else ""))
        ctx.distinct(("sim", param), nontrivial=True)
        replay_obj = {"stream": "whole-binary", "param": param, "args": ["--task-based"], "threads": c.get("threads", 1)}
        if "pair" in c and not bad:
            # continuity at abundance 0: the same run (same seed) with abundance 1e-9
            c2 = dict(c, ab=list(c["ab"]))
            c2["ab"][c["pair"]] = 1e-9
            param2 = sim_param(c2)
            bad2, data2 = run_case(binary, tool, param2, threads=c.get("threads", 1))
            st["lines"] += 1
            ctx.count()
            if not bad2:
                for k in ("Temperature", "NeutralFractionH"):
                    a, b2 = mean(data[k]), mean(data2[k])
                    if abs(a - b2) > 1e-3 * max(abs(a), abs(b2)):
                        bad.append(("sim:zero-abundance-discontinuity",
                                    "%s abundance 0 vs 1e-9 (same seed): mean %s %r vs %r" % (ELNAMES[c["pair"]], k, a, b2)))
                        replay_obj["pair_param"] = param2
                        break
        for key, desc in bad:
            st["oracle_failures"] += 1
            ctx.violation(key, "whole-binary run (%s): %s" % (c["tag"], desc), replay_obj)
    # the same physical set-up (hydrogen only, constant density, optically thin, no thermal
    # balance) on cubic and on non-cubic cells: the mean neutral fraction must not depend on
    # the cell shape beyond the discretisation (measured spread between shapes: <= 12 %, at
    # this luminosity 7 %; a cell volume off by dz/dy = 1/4 changes it by a factor ~3)
    xs = []
    for shp in (SHAPES[0], SHAPES[1]):
        c = dict(tag="shape", ab=[0.0] * 6, temperature=False, ev=20., lum="1.e12", photons=20000, iterations=3, **shp)
        param = sim_param(c)
        bad, data = run_case(binary, tool, param)
        st["lines"] += 1
        ctx.count()
        ctx.branch("sim-shape-%s" % ("cubic" if not shp else "x".join(map(str, shp["cells"]))))
        for key, desc in bad:
            st["oracle_failures"] += 1
            ctx.violation(key, "whole-binary run (cell shape): " + desc, {"stream": "whole-binary", "param": param, "args": ["--task-based"], "threads": 1})
        xs.append((mean(data["NeutralFractionH"]) if data.get("NeutralFractionH") else None, param))
    if xs[0][0] is not None and xs[1][0] is not None and abs(xs[0][0] - xs[1][0]) > 0.40 * max(xs[0][0], xs[1][0]):
        st["oracle_failures"] += 1
        ctx.violation("sim:cell-shape-dependence", "hydrogen-only optically thin run: mean x_H %r on 8x8x8 cubic cells vs %r on 4x2x8 non-cubic cells of the same box" % (xs[0][0], xs[1][0]),
                      {"stream": "whole-binary", "param": xs[1][1], "shape_param": xs[0][1], "args": ["--task-based"], "threads": 1})
    # one radiation-hydrodynamics run (same normalisation glue in the second driver)
    from props import c12
    k = ctx.rng.randrange(1, 6)
    ab = list(DEFAULT_AB)
    ab[k] = 0.0
    c = dict(layout=(2, 2, 2), cells=(4, 4, 4), radiation=True, photons=5000, iterations=2, total_time=0.002, snaptime=0.002,
             radtime=0.001, density="100. cm^-3", luminosity="1.e14")
    param = c12.rhd_param(c).replace("frequency: 13.6 eV", "frequency: %g eV" % ctx.rng.choice([45., 60., 100.]))
    param += ("Abundances:\n  helium: %r\n  carbon: %r\n  nitrogen: %r\n  oxygen: %r\n  neon: %r\n  sulphur: %r\n" % tuple(ab)
              + "TemperatureCalculator:\n  do temperature calculation: true\n  minimum number of iterations: 0\n"
              + "DensityGridWriterFields:\n  Temperature: 1\n" + "".join("  NeutralFraction%s: 1\n" % i for i in IONS))
    bad, data = run_case(binary, tool, param, args=("--task-based-rhd",), threads=1)
    st["lines"] += 1
    ctx.count()
    ctx.branch("sim-rhd-zero-" + ELNAMES[k])
    for key, desc in bad:
        st["oracle_failures"] += 1
        ctx.violation(key, "whole-binary RHD run (zero-%s): %s" % (ELNAMES[k], desc),
                      {"stream": "whole-binary", "param": param, "args": ["--task-based-rhd"], "threads": 1})
    ctx.sample({"whole_binary_case": "zero-C hard spectrum thermal balance", "runs": st["lines"]}, cap=14)


# ----------------------------------------------------------------------------- comparison

def cmp(a, b, op):
    b = vlib.strip_branch(b)
    if a == b:
        return True
    x, y = a.split(), b.split()
    if len(x) != len(y) or not x or x[0] != y[0]:
        return False
    for s, t in zip(x[1:], y[1:]):
        if s == t:
            continue
        if not (s.isdigit() and t.isdigit()):
            return False
        if not vlib.floats_close(s, t, REL, abs_floor=1e-300):
            return False
    return True


REQUIRED = ["h0-b0", "h0-b1", "h0-b2", "met-ne+", "met-ne0", "hhe-it0", "hhe-it1to5", "hhe-it6to10",
            "cell-t0", "cell-t1", "cell-t2-ne+", "cell-t3-ne+", "cell-t3-ne0",
            "bal-ne+", "bal-ne0", "bal-ne+-cr", "sgcell-t2", "sgcell-t3", "sgion-t2", "sgion-t3", "sgtemp-t2",
            "temp-t0-special", "temp-t1-special", "temp-t2-low", "temp-t2-cap", "temp-t2-mid", "temp-t2-noiter"]


def run(ctx):
    ctx.level = "proof"
    ctx.assumptions += [
        "theorems are about exact real arithmetic (x/0 = 0, sqrt of a negative = 0 in Lean); every quotient/root theorem carries the hypothesis under which this agrees with IEEE; rounding is bounded only empirically (rel 1e-10 agreement of the Float run with the C++)",
        "hHe_iterate_range_partial assumes ch >= 0 in the iteration body (forced by the proof); that the shipped tables keep ch >= 0, that the H/He fixed point converges within 20 iterations and that calculate_temperature never aborts are NOT theorems: they are searched on the implementation (hhe/cell/temp ops, aborts caught in a forked child)",
        "h0_antitone_J / h0_monotone_nalpha hold within each branch of the code and across the branch switch bb = 1e-10 only up to the relative jump 2/C <= 5.1e-11 (exact monotonicity is false there: h0_switch_not_antitone); the oracle on the implementation allows 1e-9 relative",
        "hHe_solve_range_checked / temperature_model_state_checked rest on the premise flag offDom being false; the flag is evaluated by the bit-identical Float run of the model on every hhe and bal case (evidence: searched_not_proved.premise_off_in_domain, expected 0); a direct balance evaluation with n = 0 (never made by calculate_temperature) is counted as outside the domain",
        "LineCoolingData::get_cooling is an uninterpreted function in the balance model; its value and the rates at each temperature are produced by the real classes in `c06 --prep` (the harness re-derives the arguments ne/abundances with the real static functions; the bal answers compare them with the model's)",
        "temperature_range: balance function uninterpreted; needs minimum ionized temperature <= 30000 K; when the loop body never runs (epsilon >= 1 or maximum iterations 0) the initial guess (> 4000 K) is returned, so the lower bound is min(T_min_ionized, initial guess)",
        "metals_range assumes n_e > 0 and positive recombination rates (positive denominators); n_e = 0 is excluded by the guard `if (ne > 0.)` of calculate_ionization_state (exercised by the cell ops); compute_cooling_and_heating_balance still evaluates the metals with n_e = 0 internally (NaN inside, masked by the h0 == 1 reset) — only the final cell state is checked",
        "independence of the previous cell state: proved in the model only for calculate_temperature w.r.t. the stored coolant fractions (cell_output_independent_of_previous_state); for calculate_ionization_state the model has no previous-state argument (trivial), so that every C++ branch assigns every fraction rests on the re-used-cell vs fresh-sentinel-cell oracle of the correspondence run",
        "whole-binary stream: 8^3 cells (16^3 in thorough), 2-3 iterations, 1e4 packets, 1-2 threads, monochromatic 20..100 eV source; oracle on the last Gadget snapshot only (all ionic fractions and the temperature switched on through DensityGridWriterFields); heating estimators are not in the snapshot; for the RHD run the temperature is only required to be finite (it follows the pressure after the hydro step)",
        "continuity oracle sim:zero-abundance-discontinuity: abundance 0 vs 1e-9 of the same element, same seed, means over all cells of T and x_H must agree to rel 1e-3; measured on the fixed tree over 24 pairs (all six elements, 20..100 eV, 1e12/1e14 s^-1): worst 8.1e-6 (S), He 1.2e-9 -> margin > 100; the box is optically thin, so no packet history flips",
        "the RHD driver does not normalise the He heating counter by the He abundance at all (unlike TaskBasedIonizationSimulation); not modelled, not alarmed on",
        "cmac_assert is compiled out (HAVE_ASSERTIONS undefined in the configured build) and not modelled",
        "line cooling, heating terms and the rate tables are inputs of the model (values produced by the real classes on every run), not modelled",
    ]
    ok = ctx.obligations("CMacVerif.Props.C06", ["drv_c06"])
    glue_tie(ctx)
    sim_stream(ctx)
    extra = harness_extra()
    h = vlib.build_harness("c06", extra=extra)
    rng = ctx.rng
    nb = ctx.budget(1, 20)
    raw = list(vlib.corpus_ops("C06"))
    raw += [gen_h0(rng) for _ in range(1500 * nb)]
    raw += [gen_h0m(rng) for _ in range(1500 * nb)]
    raw += [gen_met(rng) for _ in range(1200 * nb)]
    raw += [gen_hhe(rng) for _ in range(2500 * nb)]
    raw += [gen_bal(rng) for _ in range(1000 * nb)]
    raw += [gen_sg(rng) for _ in range(600 * nb)]
    raw += [gen_sgtemp(rng) for _ in range(100 * nb)]
    # `cell` / `temp` updates come as HISTORIES on one re-used cell: newcell, then 3-6 updates
    # (hard field -> zero flux -> soft field -> vacuum -> ...); the harness requires after every
    # update that the re-used cell equals a fresh sentinel-filled cell given the same inputs
    upd = [gen_cell(rng) for _ in range(2500 * nb)] + [gen_temp(rng) for _ in range(900 * nb)] + \
          [gen_temp_gminus(rng) for _ in range(400 * nb)]
    rng.shuffle(upd)
    k = 0
    while k < len(upd):
        m = rng.randint(3, 6)
        raw.append("newcell")
        for u in upd[k:k + m]:
            raw.append(force_transition(rng, u))
        k += m
    ctx.cov["rule"] = ("generated estimator sets: line spectra (1-5 frequencies between the H threshold and 4x (some up to 100x), with/without He-ionizing photons, exact thresholds) x flux 1e-5..1e18 and exactly 0, "
                       "n in {0} u 1e4..1e12 m^-3, T 1e2..1e5 K, He abundance 0..0.15 (incl. 0), metal abundances 0..1e-3, shipped Verner/charge-transfer/line-cooling tables; "
                       "subgrid-level wrappers on real DensitySubGrids with NON-CUBIC cells (sgcell/sgion/sgtemp: calculate_ionization_state(totweight, subgrid) and calculate_temperature(loop, totweight, subgrid) after update_luminosity(L0 -> L)); cell/temp updates run as histories of 3-6 updates on ONE re-used cell (with forced zero-flux / vacuum / sub-shortcut transitions), each compared with a fresh sentinel-filled cell; plus edge families (branch switch C=4e10, floor, jH below the 1e-20 shortcut, n_e = 0, all rates 0, zero iterations, clamps) and inputs outside the domain (x ops: correspondence only); "
                       "distinct = different raw op text; non-trivial = not a special-case shortcut")
    ctx.cov["tolerance_rel"] = REL
    # raw -> full (adds table values and the real balance function's values)
    rc, out, err = vlib.run_exe(h, "\n".join(raw) + "\n", args=["--prep"])
    full = [l for l in out.split("\n") if l != ""]
    if rc != 0 or len(full) != len(raw):
        ctx.broken_obligation("harness c06 --prep failed (rc %d, %d of %d lines): %s" % (rc, len(full), len(raw), err[-500:]))
        return
    bad = [l for l in full if l.startswith("bad-op")]
    if bad:
        ctx.broken_obligation("c06 --prep rejected %d generated lines, first: %s" % (len(bad), bad[0][:200]))
    if not ok:
        return
    n, impl, model, orc = ctx.correspond("ionbalance", h, vlib.driver("drv_c06"), full, cmp=cmp,
                                         group_start=group_start,
                                         oracle_key=lambda what, grp: what.split()[0])
    exact = 0
    per = {}
    srch = {"aborts_in_domain": 0, "aborts_outside_domain": 0, "hhe_iterations_11_to_20_in_domain": 0,
            "hhe_iterations_11_to_20_outside_domain": 0, "premise_off_in_domain": 0, "premise_off_outside_domain": 0}
    for r, op, a, b in zip(raw, full, impl, model):
        ctx.count()
        kind = op.split(" ", 1)[0]
        if kind == "newcell":
            ctx.branch("history-start")
            continue
        p = per.setdefault(kind, [0, 0])
        p[0] += 1
        if a == vlib.strip_branch(b):
            exact += 1
            p[1] += 1
        tag = b.split(" #")[1] if " #" in b else "none"
        ctx.branch(tag)
        # the callers never evaluate the balance for a vacuum cell (n = 0 is special-cased in
        # calculate_temperature): a direct `bal` evaluation with n = 0 is an excluded point
        vacuum_bal = kind == "bal" and op.split(" ", 3)[2] == "0"
        dom = "outside_domain" if (kind.endswith("x") or vacuum_bal or (kind == "abort" and op.split()[1].startswith(("tempx", "balx")))) else "in_domain"
        if "abort" in tag:
            srch["aborts_" + dom] += 1
        if "it11to20" in tag:
            srch["hhe_iterations_11_to_20_" + dom] += 1
        if "offdom" in tag:
            srch["premise_off_" + dom] += 1
        trivial = tag in ("h0-b0", "cell-t0", "cell-t1", "temp-t0-special", "hhe-it0", "none")
        ctx.distinct(r, nontrivial=not trivial)
    ctx.cov["bit_exact_rate"] = round(exact / max(1, sum(v[0] for v in per.values())), 6)
    ctx.cov["bit_exact_per_op"] = {k: "%d/%d" % (v[1], v[0]) for k, v in sorted(per.items())}
    hist = ctx.cov["branch_histogram"]
    missing = [t for t in REQUIRED if not any(k == t or k.startswith(t) for k in hist)]
    # special branches of the temperature iteration (instrumentation tags of the driver)
    for t in ("g-", "g+", "g0", "l0", "W", "v", "^"):
        if not any(k.startswith("temp-t2-") and t in k[len("temp-t2-"):] for k in hist):
            missing.append("temp-loop:" + t)
    ctx.cov["coverage_gate"] = "ok" if not missing else "model branches never taken: " + ", ".join(missing)
    if missing:
        ctx.notes.append("insufficient evidence (not a violation): branches never taken: " + ", ".join(missing))
    ctx.cov["searched_not_proved"] = srch
    if srch["premise_off_in_domain"]:
        ctx.notes.append("checked premise of hHe_solve_range_checked raised inside the domain on %d cases (not a violation of C06 by itself: the range oracles decide; the theorem does not cover these inputs)" % srch["premise_off_in_domain"])
    for k in ("h0 ", "h0m ", "met ", "hhe ", "bal ", "cell ", "temp ", "sgcell ", "sgion ", "sgtemp "):
        for op, a in zip(full, impl):
            if op.startswith(k):
                ctx.sample({"op": op[:300], "impl": a[:300]}, cap=12)
                break


def replay(ctx, path):
    import json
    obj = json.load(open(path))
    if obj.get("stream") == "whole-binary":
        binary = vlib.full_binary()
        tool = vlib.build_harness("c06_snap")
        print("parameter file:\n" + obj["param"])
        bad, data = run_case(binary, tool, obj["param"], args=obj.get("args", ["--task-based"]), threads=obj.get("threads", 1))
        if "pair_param" in obj and not bad:
            bad2, data2 = run_case(binary, tool, obj["pair_param"], args=obj.get("args", ["--task-based"]), threads=obj.get("threads", 1))
            mean = lambda v: sum(v) / max(1, len(v))
            for k in ("Temperature", "NeutralFractionH"):
                a, b2 = mean(data[k]), mean(data2[k])
                print("mean %s: abundance 0 -> %r, abundance 1e-9 -> %r" % (k, a, b2))
                if abs(a - b2) > 1e-3 * max(abs(a), abs(b2)):
                    bad.append(("sim:zero-abundance-discontinuity", k))
        if "shape_param" in obj and not bad:
            bad2, data2 = run_case(binary, tool, obj["shape_param"], args=obj.get("args", ["--task-based"]), threads=1)
            mean = lambda v: sum(v) / max(1, len(v))
            a, b2 = mean(data["NeutralFractionH"]), mean(data2["NeutralFractionH"])
            print("mean x_H: non-cubic cells (this parameter file) %r, cubic cells %r" % (a, b2))
            if abs(a - b2) > 0.40 * max(a, b2):
                bad.append(("sim:cell-shape-dependence", "mean x_H differs by more than 40 %"))
        for key, desc in bad:
            print("ORACLE %s %s" % (key, desc))
        print("REPRODUCED" if bad else "not reproduced")
        return 1 if bad else 0
    return vlib.generic_replay(ctx, path, "c06", "drv_c06", cmp=cmp, harness_kw={"extra": harness_extra()})


MANIFEST = dict(
    category="proof",
    text="Lean theorems over the reals about the generic-arithmetic model of IonizationStateCalculator / TemperatureCalculator: hydrogen closed form solves x^2-(2+C)x+1=0 (h0_solves_balance), lies in [1e-14,1] for every input (h0_range), is antitone in J and monotone in n*alpha (h0_antitone_J, h0_monotone_nalpha; exact within a branch, up to 5.1e-11 relative across the Taylor switch, where strict monotonicity is refuted by h0_switch_not_antitone); every metal fraction in [0,1] and stage sums <= 1 for non-negative rates and positive denominators (metals_range); one H/He loop body maps (0,1)x[0,1] into [0,1]^2 when ch >= 0 (hHe_iterate_range_partial); for EVERY balance function, tolerance and iteration count the returned temperature is 500 K or in [min(T_min, initial guess), 30000 K] (temperature_range); the subgrid-level wrappers hand L*counter/(totweight*V) with V = prod side/ncell to the kernels and use the updated luminosity in both branches (wrapper_rate, cellVolume_fill, update_luminosity_sync, wrapper_h0_balance); compute_cooling_and_heating_balance is modelled statement by statement (only LineCoolingData::get_cooling and the rate tables enter as values): heating and cooling >= 0 for every input (balance_nonneg), line-cooling abundances in [0, A_X] (abund_range), and for every balance function whose evaluations are physical the cell state after calculate_temperature has H/He fractions in [0,1] and coolants reset or physical through every special case, clamp and reset (temperature_state_physical; for the modelled balance: temperature_model_state_physical / _checked, balModel_ok); the whole H/He solve returns fractions in [0,1] whenever the premise flag offDom computed by the model run is false (hHe_solve_range_checked); the result of calculate_temperature does not depend on the coolant fractions stored in the cell before the call (cell_output_independent_of_previous_state). The same definitions instantiated at Float agree with the real static functions and calculate_temperature (shipped tables) to rel 1e-10; oracles on the implementation: finiteness, ranges, stage sums, T bounds, abort (forked child), H-only balance residual and monotonicity; the glue around the kernels (normalisation of the counters by the abundances, theorem normalise_zero_counter, statement text tied in both task-based drivers) through short whole-binary runs (--task-based with thermal balance on/off, abundance exactly 0 for each element, hard spectra; one --task-based-rhd radiation run) with the same oracles on the Gadget snapshot plus continuity at abundance 0 (0 vs 1e-9, same seed); and after every update of a 3-6 step history on ONE re-used cell: all 14 fractions and the temperature equal those of a fresh sentinel-filled (0.123) cell given the same inputs (outputs not reassigned on some branch).",
    note="PARTIAL: that the H/He premise flag (0 < h0old < 1 and ch >= 0 in every executed body) stays false on the whole domain is checked on every generated case (count reported, 0 in domain), not proved; convergence of the H/He fixed point within 20 iterations (no cmac_error), ch >= 0 for the shipped tables and absence of aborts in calculate_temperature are searched, not proved. Trusted: Lean kernel + 3 axioms; hand model (tied by the Float correspondence); exact-arithmetic theorems (rounding only bounded empirically); line cooling / heating / rate tables enter as values computed by the real classes; cmac_assert compiled out.",
    technique="Lean 4 proofs (field_simp / nlinarith / sqrt lemmas, induction over the iteration count with an uninterpreted balance function) + Float differential correspondence against the real C++ with forked-child abort capture")
