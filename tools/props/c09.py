"""C09 — a run stopped and restarted continues exactly (DESIGN §6 C09).

Parts (in the order they run):
 1. tools/gen_c09_schemas.py regenerates lean/CMacVerif/Gen/RestartSchemas.lean from the source
    (write list / read list of every restartable class and of the top-level dump, derived fields).
 2. Lean obligations CMacVerif.Props.C09 (codec_roundtrip, schemas_match, derived_same_expression,
    transient_fields_reset, continuation_identical_partial) + axiom audit.
 3. correspondence (a): harness/c09.cpp drives the real classes: write -> read -> write byte
    identity per component; the bytes the real writer produced are decoded by the Lean codec with
    the generated schema (driver drv_c09) and re-encoded: must be consumed exactly and reproduce
    the bytes; RESTARTWRITER_INFO / RESTARTREADER_INFO size logs of the real code = flattened schema.
 4. correspondence (b): the real hooked binary: pure-hydro runs stopped after EVERY step k and
    restarted, chains of stop/restart, compared with the uninterrupted run by per-step state
    digests (hook, seeded/_hook_c09.diff); the real restart.dump decoded by the Lean codec.
"""
import concurrent.futures
import hashlib
import json
import os
import re
import shutil
import sys
import tempfile

import vlib
import simrun

sys.path.insert(0, os.path.join(vlib.VERIF, "tools"))

# local work-around: scratch build trees of alternative repositories (`VERIF_REPO=...`, mutation tests) are
# named .build/alt_*; other jobs remove `.build/alt_*` while a C09 run (which needs the whole binary for minutes)
# is still using its tree, so C09 keeps its alternative trees under another name
if vlib.REPO != "/repo" and os.path.basename(vlib.BUILD).startswith("alt_"):
    vlib.BUILD = os.path.join(vlib.VERIF, ".build", "c09" + os.path.basename(vlib.BUILD))
    vlib.BIN = os.path.join(vlib.BUILD, "bin")
    vlib.FULL = os.path.join(vlib.BUILD, "full")

GROUPS = ["primitives", "conserved", "delta_conserved", "gradients", "limiters(not stored)", "acceleration+energy terms",
          "ionization variables", "geometry incl. derived fields", "subgrid bookkeeping (not stored)",
          "requested_timestep", "actual_timestep", "current_time", "has_next_step", "hydro_lastsnap"]


# --------------------------------------------------------------------------- configurations

def fmt(x):
    return repr(float(x))


def make_blocks(rng, box):
    """a BlockSyntax density file: background + 2..3 blobs with different densities, temperatures, velocities"""
    n = rng.choice([2, 3, 4])
    out = ["number of blocks: %d" % n]
    for i in range(n):
        if i == 0:
            org = [0.5 * b for b in box]
            sides = [4. * max(box)] * 3
            typ = "cube"
        else:
            org = [rng.uniform(0.1, 0.9) * b for b in box]
            sides = [rng.uniform(0.25, 0.8) * min(box)] * 3
            typ = rng.choice(["sphere", "rhombus", "cube"])
        rho = rng.choice([0.3, 1., 3., 10.]) * rng.uniform(0.5, 1.5)
        T = rng.choice([50., 100., 300., 1000.]) * rng.uniform(0.5, 1.5)
        v = [rng.choice([0., 1., -1.]) * rng.uniform(10., 400.) for _ in range(3)]
        out += ["block[%d]:" % i,
                "  origin: [%s m, %s m, %s m]" % tuple(fmt(x) for x in org),
                "  sides: [%s m, %s m, %s m]" % tuple(fmt(x) for x in sides),
                "  type: %s" % typ,
                "  number density: %s m^-3" % fmt(rho),
                "  initial temperature: %s K" % fmt(T),
                "  initial velocity: [%s m s^-1, %s m s^-1, %s m s^-1]" % tuple(fmt(x) for x in v)]
    return "\n".join(out) + "\n"


def param_text(cfg):
    b = lambda v: "true" if v else "false"
    nx, ny, nz = cfg["layout"]
    nc = [cfg["layout"][i] * cfg["cells"][i] for i in range(3)]
    per = cfg["periodic"]
    bnd = [("periodic" if per[i] else cfg["boundary"][i]) for i in range(3)]
    box = cfg["box"]
    t = []
    t.append("SimulationBox:\n  anchor: [%s m, %s m, %s m]\n  sides: [%s m, %s m, %s m]\n  periodicity: [%s, %s, %s]" % (
        tuple(fmt(x) for x in cfg["anchor"]) + tuple(fmt(x) for x in box) + tuple(b(p) for p in per)))
    t.append("DensityGrid:\n  number of cells: [%d, %d, %d]" % tuple(nc))
    t.append("DensitySubGridCreator:\n  number of subgrids: [%d, %d, %d]\n  periodicity: [%s, %s, %s]" % (nx, ny, nz, b(per[0]), b(per[1]), b(per[2])))
    t.append("HydroBoundaryManager:\n" + "\n".join("  boundary %s %s: %s" % ("xyz"[i], hl, bnd[i]) for i in range(3) for hl in ("high", "low")))
    t.append("DensityFunction:\n  type: BlockSyntax\n  filename: blocks.yml")
    sim = ["TaskBasedRadiationHydrodynamicsSimulation:", "  total time: %s s" % fmt(cfg["total_time"]), "  do radiation: false",
           "  snapshot time: %s s" % fmt(cfg.get("snapshot_time", 1000.)), "  number of buffers: 2000", "  queue size per thread: 5000",
           "  shared queue size: 5000", "  number of tasks: 20000", "  CFL: %s" % fmt(cfg.get("cfl", 0.2))]
    if cfg.get("mask"):
        sim.append("  use mask: true")
    if cfg.get("turbulence"):
        sim.append("  turbulent forcing: true")
    if cfg.get("gravity"):
        sim.append("  external gravity: true")
    t.append("\n".join(sim))
    t.append("DensityGridWriter:\n  type: AsciiFile\n  prefix: snap")
    # the (unused) photon source must lie inside the box: the copy-level loop indexes a vector with its subgrid
    t.append("PhotonSourceDistribution:\n  type: SingleStar\n  position: [%s m, %s m, %s m]\n  luminosity: 1.e48 s^-1" % tuple(
        fmt(cfg["anchor"][j] + 0.5 * box[j]) for j in range(3)))
    t.append("Hydro:\n  polytropic index: %s" % cfg["gamma"])
    t.append("RestartManager:\n  output interval: %s s\n  maximum number of backups: %d" % (fmt(cfg.get("dump_interval", 0.)), cfg.get("backups", 1)))
    if cfg.get("mask"):
        m = cfg["mask"]
        t.append("HydroMask:\n  type: RescaledIC\n  center: [%s m, %s m, %s m]\n  radius: %s m\n  scale factor density: %s\n  scale factor velocity: %s\n  scale factor pressure: %s\n  delta t: 0. s" % (
            tuple(fmt(x) for x in m["center"]) + (fmt(m["radius"]), fmt(m["sd"]), fmt(m["sv"]), fmt(m["sp"]))))
    if cfg.get("turbulence"):
        u = cfg["turbulence"]
        t.append("TurbulenceForcing:\n  minimum wave number: 1.\n  maximum wave number: %s\n  peak forcing wave number: 1.5\n  concentration factor: 0.2\n  forcing power: %s m^2 s^-3\n  random seed: %d\n  time step: %s s\n  starting time: 0. s" % (
            fmt(u["kmax"]), fmt(u["power"]), u["seed"], fmt(u["dt"])))
    if cfg.get("gravity"):
        g = cfg["gravity"]
        t.append("ExternalPotential:\n  type: PointMass\n  position: [%s m, %s m, %s m]\n  mass: %s kg" % (tuple(fmt(x) for x in g["position"]) + (fmt(g["mass"]),)))
    return "\n".join(t) + "\n"


BOXES_DYADIC = [(1., 1., 1.), (2., 1., 0.5), (0.5, 0.25, 1.)]
BOXES_NONDYADIC = [(1., 1., 0.3), (0.7, 1.1, 0.9), (3., 1., 2.), (0.1, 0.1, 0.1), (1.e-3, 3.e-3, 7.e-3)]
LAYOUTS = [(1, 1, 1), (2, 1, 1), (1, 2, 2), (2, 2, 1), (2, 2, 2), (3, 1, 2), (1, 1, 3)]
CELLS = [(2, 2, 2), (3, 2, 2), (2, 3, 4), (3, 3, 3), (4, 2, 3), (1, 2, 3)]


def gen_config(rng, i, nsteps, force=None):
    force = force or {}
    cfg = {}
    feat = force.get("feature", rng.choice(["plain", "plain", "mask", "turbulence", "gravity", "mask+turbulence"]))
    cfg["layout"] = force.get("layout", rng.choice(LAYOUTS))
    cfg["cells"] = force.get("cells", rng.choice(CELLS))
    dy = force.get("dyadic", rng.random() < 0.35)
    cfg["box"] = rng.choice(BOXES_DYADIC if dy else BOXES_NONDYADIC)
    if "turbulence" in feat:
        s = rng.choice([1., 0.5] if dy else [0.7, 0.3, 1.1])
        cfg["box"] = (s, s, s)
    cfg["anchor"] = rng.choice([(0., 0., 0.), (-0.5 * cfg["box"][0], -0.5 * cfg["box"][1], -0.5 * cfg["box"][2]), (0.1, -0.3, 0.7)])
    cfg["periodic"] = tuple(rng.random() < 0.5 for _ in range(3))
    cfg["boundary"] = tuple(rng.choice(["reflective", "inflow", "outflow"]) for _ in range(3))
    cfg["gamma"] = rng.choice(["1.6666666667", "1.4", "1.1"])
    cfg["total_time"] = 1.e-3 * min(cfg["box"]) / 1.
    cfg["cfl"] = rng.choice([0.2, 0.3, 0.1])
    cfg["steps"] = nsteps
    box, anc = cfg["box"], cfg["anchor"]
    if "mask" in feat:
        cfg["mask"] = dict(center=[anc[j] + rng.uniform(0.3, 0.7) * box[j] for j in range(3)], radius=rng.uniform(0.3, 0.6) * max(box),
                           sd=rng.choice([0.01, 0.5, 1.]), sv=rng.choice([1., 0.5, 2.]), sp=rng.choice([0.01, 0.5, 1.]))
    if "turbulence" in feat:
        cfg["turbulence"] = dict(kmax=rng.choice([2., 3.]), power=rng.choice([1.e6, 1.e8]) * box[0] ** 2, seed=rng.randrange(1, 1000),
                                 dt=cfg["total_time"] / rng.choice([40., 200., 1000.]))
    if "gravity" in feat:
        cfg["gravity"] = dict(position=[anc[j] + rng.uniform(-0.5, 1.5) * box[j] for j in range(3)], mass=rng.choice([1.e12, 1.e14]) * min(box) ** 3)
    cfg["feature"] = feat
    cfg["thread_pairs"] = rng.sample([(2, 4), (4, 2), (3, 3), (8, 1), (1, 3), (2, 2), (4, 3)], 2)
    cfg["blocks"] = make_blocks(rng, [box[j] for j in range(3)]) if True else ""
    # blocks are placed relative to the anchor
    cfg["blocks"] = shift_blocks(cfg["blocks"], anc)
    cfg["id"] = "cfg%03d" % i
    return cfg


def shift_blocks(text, anc):
    def rep(m):
        v = [float(x) for x in re.findall(r"([-+0-9.eE]+) m", m.group(0))]
        return "origin: [%s m, %s m, %s m]" % tuple(fmt(v[j] + anc[j]) for j in range(3))
    return re.sub(r"origin: \[[^\]]*\]", rep, text)


def is_dyadic(cfg):
    """is the cell size exactly representable (then ncell/side == 1/(side/ncell) holds exactly)"""
    from fractions import Fraction
    for j in range(3):
        n = cfg["layout"][j] * cfg["cells"][j]
        if Fraction(cfg["box"][j]) / n != Fraction(cfg["box"][j] / n):
            return False
    return True


# --------------------------------------------------------------------------- running

def digests(trace):
    """{(kind, step): [fields]} from the hook's D events"""
    d = {}
    for l in trace:
        w = l.split()
        if len(w) > 4 and w[1] == "D":
            d[(int(w[2]), int(w[3]))] = w[4:]
    return d


class Runner:
    def __init__(self, binary, cfg, root):
        self.binary, self.cfg, self.root = binary, cfg, root
        self.param = param_text(cfg)
        self.nruns = 0

    def run(self, d, args, env=None, stopfile=False, timeout=120, threads=1):
        d = os.path.join(self.root, d)
        os.makedirs(d, exist_ok=True)
        with open(os.path.join(d, "blocks.yml"), "w") as f:
            f.write(self.cfg["blocks"])
        if stopfile:
            open(os.path.join(d, "stop"), "w").close()
        self.nruns += 1
        r = simrun.run_sim(self.binary, self.param, ["--task-based-rhd"] + list(args), threads=threads, workdir=d, keep=True, env=env, timeout=timeout)
        r["digests"] = digests(r["trace"])
        return r


def diff_fields(a, b):
    return [GROUPS[i] if i < len(GROUPS) else "field%d" % i for i in range(max(len(a), len(b))) if i >= len(a) or i >= len(b) or a[i] != b[i]]


def last_snapshot(d):
    fs = sorted(f for f in os.listdir(d) if re.match(r"snap\d+\.txt$", f))
    return (fs[-1], open(os.path.join(d, fs[-1]), "rb").read()) if fs else (None, b"")


def experiment(binary, cfg, root, keep_dump=True):
    """the whole stop/restart experiment of one configuration.
    returns dict(problems=[(key, text, replay-extra)], runs, compared, dump (bytes of a real restart.dump), ...)"""
    R = Runner(binary, cfg, root)
    N = cfg["steps"]
    res = dict(problems=[], runs=0, compared=0, restarts=0, branches={}, cfg=cfg)
    prob = res["problems"]

    def br(x):
        res["branches"][x] = res["branches"].get(x, 0) + 1
    A = R.run("A", ["--number-of-steps", str(N)])
    if A["timed_out"] or A["rc"] != 0:
        prob.append(("restart:run-failed", "uninterrupted run exited with status %s: %s" % (A["rc"], A["log"][-300:]), {"mode": "uninterrupted"}))
        res["runs"] = R.nruns
        return res
    DA = A["digests"]
    nA = max([s for (k, s) in DA if k == 1] or [0])
    if (0, 0) not in DA or nA < 2:
        prob.append(("machinery:no-digest", "no state digests in the trace of the uninterrupted run (hook missing?) or fewer than 2 steps (%d)" % nA, {"mode": "uninterrupted"}))
        res["runs"] = R.nruns
        return res
    N = min(N, nA)
    res["steps"] = N
    res["state_changes"] = len(set(tuple(DA[(1, s)][:2]) for s in range(1, N + 1)))
    snapA = last_snapshot(os.path.join(root, "A"))
    try:
        res["dump"] = open(os.path.join(root, "A", "restart.dump"), "rb").read()
    except OSError:
        res["dump"] = b""
        prob.append(("restart:no-dump", "the uninterrupted run wrote no restart.dump although the output interval is 0", {"mode": "uninterrupted"}))

    def compare(tag, k, D, mode, final_dir=None):
        """D: digests of a restarted run that started from the dump after step k"""
        bad = False
        if (0, k) not in D:
            prob.append(("restart:restarted-state-missing", "%s: restarted run (dump after step %d) logged no initial digest for step %d" % (tag, k, k), {"mode": mode, "k": k}))
            return
        res["compared"] += 1
        f = diff_fields(D[(0, k)], DA[(1, k)])
        if f:
            bad = True
            transient = [x for x in f if "not stored" in x]
            key = "restart:transient-field-differs-after-restart" if len(transient) == len(f) else "restart:restored-state-differs"
            prob.append((key, "%s: state of the simulation restarted from the dump after step %d differs from the dumped state in: %s" % (tag, k, ", ".join(f)), {"mode": mode, "k": k, "step": k}))
        for (kind, s), v in sorted(D.items()):
            if kind != 1:
                continue
            res["compared"] += 1
            if (1, s) not in DA:
                continue
            f = diff_fields(v, DA[(1, s)])
            if f and not bad:
                bad = True
                prob.append(("restart:continuation-differs", "%s: stopped after step %d and restarted; state after step %d differs from the uninterrupted run in: %s" % (tag, k, s, ", ".join(f)), {"mode": mode, "k": k, "step": s}))
        if final_dir and not bad:
            sn = last_snapshot(final_dir)
            if sn != snapA:
                prob.append(("restart:final-snapshot-differs", "%s: final snapshot %s of the run restarted after step %d differs from the uninterrupted run's %s" % (tag, sn[0], k, snapA[0]), {"mode": mode, "k": k}))

    # (1) stop after every k with --number-of-steps k, restart, run to N
    for k in range(1, N):
        d = "B%d" % k
        r1 = R.run(d, ["--number-of-steps", str(k)])
        if r1["rc"] != 0:
            prob.append(("restart:run-failed", "run stopped with --number-of-steps %d exited with status %s: %s" % (k, r1["rc"], r1["log"][-300:]), {"mode": "stop", "k": k}))
            continue
        r2 = R.run(d, ["--restart", ".", "--number-of-steps", str(N)])
        res["restarts"] += 1
        br("stop-every-k")
        if r2["rc"] != 0 or r2["timed_out"]:
            prob.append(("restart:restarted-run-failed", "run restarted from the dump after step %d exited with status %s: %s" % (k, r2["rc"], r2["log"][-300:]), {"mode": "stop", "k": k}))
            continue
        compare("stop/restart", k, r2["digests"], "stop", os.path.join(root, d))
    # (2) chain: stop after every single step, restart from the previous run's dump each time
    r = R.run("C", ["--number-of-steps", "1"])
    for k in range(1, N):
        if r["rc"] != 0:
            prob.append(("restart:restarted-run-failed", "chain of stop/restart cycles: run number %d exited with status %s: %s" % (k, r["rc"], r["log"][-300:]), {"mode": "chain", "k": k}))
            break
        r = R.run("C", ["--restart", ".", "--number-of-steps", str(k + 1)])
        res["restarts"] += 1
        br("chain")
        if r["rc"] == 0:
            compare("chain of %d stop/restart cycles" % k, k, r["digests"], "chain", os.path.join(root, "C") if k + 1 == N else None)
    # (3) stop requested through the stop file (default dump interval: the only dumps are the requested ones)
    cfg2 = dict(cfg, dump_interval=3600.)
    R2 = Runner(binary, cfg2, root)
    r = R2.run("S", [], stopfile=True)
    k = 1
    nchain = min(N - 1, 3)
    while r["rc"] == 0 and k <= nchain:
        if not os.path.exists(os.path.join(root, "S", "restart.dump")):
            prob.append(("restart:no-dump", "a stop file was present but the run wrote no restart.dump", {"mode": "stopfile", "k": k}))
            break
        last = (k == nchain)
        r = R2.run("S", ["--restart", "."] + (["--number-of-steps", str(N)] if last else []), stopfile=not last)
        res["restarts"] += 1
        br("stop-file")
        if r["rc"] == 0:
            compare("stop file, cycle %d" % k, k, r["digests"], "stopfile")
        else:
            prob.append(("restart:restarted-run-failed", "run restarted after a stop-file stop (cycle %d) exited with status %s: %s" % (k, r["rc"], r["log"][-300:]), {"mode": "stopfile", "k": k}))
        k += 1
    # (4) dump written by t1 threads, restarted with t2 threads (legal since 849abf2).  Runs on several threads are not
    # bit-identical to the 1-thread run (order of the flux sums: C10's tolerance), so what must hold exactly is
    # "restored state = dumped state": the first digest of the restarted process equals the last digest of the process that
    # wrote the dump (all groups; the geometry group contains the owning thread, which legitimately changes when t2 < t1)
    kmid = max(1, N // 2)
    for (t1, t2) in cfg.get("thread_pairs", []):
        d = "T%d_%d" % (t1, t2)
        r1 = R.run(d, ["--number-of-steps", str(kmid)], threads=t1)
        if r1["rc"] != 0 or r1["timed_out"]:
            prob.append(("restart:run-failed", "run on %d threads stopped with --number-of-steps %d exited with status %s: %s" % (t1, kmid, r1["rc"], r1["log"][-300:]), {"mode": "threads", "k": kmid, "threads": [t1, t2]}))
            continue
        r2 = R.run(d, ["--restart", ".", "--number-of-steps", str(min(N, kmid + 2))], threads=t2)
        res["restarts"] += 1
        br("threads-%s" % ("same" if t1 == t2 else "more" if t2 > t1 else "fewer"))
        if r2["rc"] != 0 or r2["timed_out"]:
            prob.append(("restart:restarted-run-failed:threads", "dump written by %d threads, restarted with %d threads: exit status %s%s: %s" % (t1, t2, r2["rc"], " (timeout)" if r2["timed_out"] else "", r2["log"][-300:]),
                         {"mode": "threads", "k": kmid, "threads": [t1, t2]}))
            continue
        a, b2 = r1["digests"].get((1, kmid)), r2["digests"].get((0, kmid))
        if a is None or b2 is None:
            prob.append(("restart:restarted-state-missing", "threads %d -> %d: no digest of the dumped / restored state at step %d" % (t1, t2, kmid), {"mode": "threads", "k": kmid, "threads": [t1, t2]}))
            continue
        res["compared"] += 1
        f = diff_fields(b2, a)
        if t2 < t1:
            f = [x for x in f if not x.startswith("geometry")]
        if f:
            prob.append(("restart:restored-state-differs:threads", "dump written by %d threads after step %d, restarted with %d threads: the restored state differs from the dumped state in: %s" % (t1, kmid, t2, ", ".join(f)),
                         {"mode": "threads", "k": kmid, "threads": [t1, t2]}))
    res["runs"] = R.nruns + R2.nruns
    return res


# --------------------------------------------------------------------------- the check

COMPONENTS = ["CoordinateVector<double>", "CoordinateVector<int_fast32_t>", "CoordinateVector<bool>", "Box<double>", "RandomGenerator",
              "TimeLine", "Timer", "HydroVariables", "IonizationVariables", "DensitySubGrid", "HydroDensitySubGrid",
              "DensitySubGridCreator<HydroDensitySubGrid>", "AlveliusTurbulenceForcing", "RescaledICHydroMask", "HydroMaskFactory",
              "YAMLDictionary", "ParameterFile", "SingleStarPhotonSourceDistribution", "SingleSupernovaPhotonSourceDistribution",
              "UniformRandomPhotonSourceDistribution", "DiscPatchPhotonSourceDistribution", "CaproniPhotonSourceDistribution",
              "AsciiFilePhotonSourceDistribution", "PhotonSourceDistributionFactory"]
# restartable classes that the component harness does not drive (old grid classes need most of the library)
NOT_DRIVEN = ["DensityGrid", "CartesianDensityGrid", "DensityGridFactory", "StatisticsLogger", "LiveOutputManager", "do_simulation"]


def fnv_bytes(b):
    h = 14695981039346656037
    for c in b:
        h = ((h ^ c) * 1099511628211) & 0xFFFFFFFFFFFFFFFF
    return h


def translator(ctx):
    import gen_c09_schemas
    try:
        info = gen_c09_schemas.generate()
    except gen_c09_schemas.GenError as e:
        ctx.broken_obligation("translator tools/gen_c09_schemas.py cannot parse the restart functions of the current tree: %s" % e, str(e))
        return None
    ctx.cov["translator"] = {"classes": len(info["classes"]), "files": len(info["files"]), "notes": info["notes"],
                             "prims_per_class": {k: v[0] for k, v in info["prims"].items()},
                             "types": {k: "%s/%d" % tuple(v) for k, v in info["types"].items()}, "constants": info["consts"],
                             "macros_defined": sorted(k for k, v in info["macros"].items() if v)}
    return info


def translator_oracles(ctx, info):
    """what the generated tables say about the implementation, as concrete findings (the Lean build then fails as well)"""
    import gen_c09_schemas as g
    bad = [n for n in info["classes"] if not info["equal"][n]]
    if bad:
        # re-derive the two lists for the report
        for n in bad:
            ctx.violation("schema:write-read-mismatch:%s" % n,
                          "%s: the items written by write_restart_file are not the items read by the restart constructor (%s)" % (n, (info.get("diff", {}).get(n) or "see Gen/RestartSchemas.lean: %s_write vs %s_read" % (g.lean_name(n), g.lean_name(n)))),
                          {"class": n, "generated": "lean/CMacVerif/Gen/RestartSchemas.lean", "theorem": "schemas_match"})
    from collections import Counter
    ctx.cov["translator"]["members"] = dict(Counter(r[3] for r in info["members"]))
    ctx.cov["translator"]["members_not_stored"] = ["%s::%s %s (%s)" % (r[0], r[1], r[3], r[4][:120]) for r in info["members"] if r[3] not in ("stored",)][:80]
    for (c, m, t, k, d) in info["members"]:
        if k == "UNCLASSIFIED":
            ctx.violation("member:unclassified:%s::%s" % (c, m),
                          "data member %s::%s (%s) is neither written to the restart file, nor recomputed / reset by the restart constructor, nor rebuilt from the parameter file, nor excluded by the property: %s" % (c, m, t, d),
                          {"class": c, "member": m, "type": t, "detail": d, "theorem": "all_members_classified", "generated": "lean/CMacVerif/Gen/RestartSchemas.lean (members)"})
    dc = {(c, lhs): (e, t) for (c, lhs, e, t) in info["derived"]["ctor"]}
    dr = {(c, lhs): (e, t) for (c, lhs, e, t) in info["derived"]["restart"]}
    for k in sorted(set(dc) | set(dr), key=str):
        a, b = dc.get(k), dr.get(k)
        name = "%s.%s[%d]" % (k[0], k[1][0], k[1][1])
        if a is None or b is None:
            ctx.violation("derived:only-one-constructor-sets:%s" % name, "%s is not stored in the restart file and is set by %s only (%s)" % (
                name, "the normal construction path" if b is None else "the restart constructor", (a or b)[1]), {"field": name, "theorem": "derived_same_expression"})
        elif a[0] != b[0]:
            ctx.violation("derived:expression-differs:%s" % name, "%s is not stored in the restart file; the constructor computes it as `%s`, the restart constructor as `%s`" % (name, a[1].strip(), b[1].strip()),
                          {"field": name, "ctor": a[1], "restart": b[1], "theorem": "derived_same_expression"})
        elif "other" in str(a[0]):
            ctx.violation("derived:depends-on-unstored-value:%s" % name, "%s is recomputed from something that is not in the restart file: `%s`" % (name, a[1].strip()), {"field": name, "theorem": "derived_same_expression"})


def component_ops(ctx, scratch):
    per = ctx.budget(12, 120)
    ops = []
    for ci, c in enumerate(COMPONENTS):
        for k in range(per):
            ops.append("comp %s c%d_%d %s %d" % (c, ci, k, os.path.join(scratch, "c%d_%d.bin" % (ci, k)), ctx.rng.randrange(1, 2 ** 40)))
    return ops


def _sweep_old_trees():
    """remove C09's own alternative build trees that were not touched for 3 hours (seeded / mutation runs)"""
    import time
    base = os.path.join(vlib.VERIF, ".build")
    try:
        for d in os.listdir(base):
            p = os.path.join(base, d)
            if d.startswith("c09alt_") and p != vlib.BUILD and time.time() - os.path.getmtime(p) > 3 * 3600:
                shutil.rmtree(p, ignore_errors=True)
    except OSError:
        pass


def run(ctx):
    ctx.level = "other"
    _sweep_old_trees()
    ctx.assumptions += [
        "PROVED (Lean): codec round trip for every schema/value; write schema = read schema for every restartable class, factory and the top-level dump (generated, decide); not-stored subgrid members recomputed by the same expression; limiter array reset at the end of every step; identical continuation for every deterministic step function preserving these facts, for every stop point and every chain of stop/restart cycles",
        "NOT PROVED, validated by the experiments of this run: that stored + derived + transient members are everything a step reads (the step function of continuation_identical_partial is abstract); the other not-stored members (active buffers, largest-buffer cache, hydro task indices, task tables, queues) are compared by digest only",
        "one thread; pure hydrodynamics (do radiation: false); the photon random stream is deliberately re-seeded on restart and wall-clock timers are excluded, as the property says",
        "translator (textual): initialiser lists are in member declaration order (checked), braced lists are evaluated left to right, `_subgrids[i]->write_restart_file` dispatches to the template argument type, typeid(X).name() of a global class is <len><name>; every C++ type width / constant / macro comes from a probe compiled against the current headers; the translator is validated on this run by decoding bytes the real classes and the real binary wrote and by the code's own RESTARTWRITER_INFO / RESTARTREADER_INFO logs",
        "strings are NUL-free and map keys strictly increasing (std::map) — the reader goes through char* (embedded NUL would truncate; noted in DESIGN, not a claim)",
        "loop counts are products in N; the C++ evaluates them in 64-bit integers (no overflow for any grid that fits in memory)",
    ]
    info = translator(ctx)
    if info is not None:
        translator_oracles(ctx, info)
    ok = ctx.obligations("CMacVerif.Props.C09", ["drv_c09"])
    rule = []
    # ---- (a) components through the real classes
    scratch = tempfile.mkdtemp(prefix="verif_c09_")
    try:
        h = vlib.build_harness("c09", extra=["-DOMPI_SKIP_MPICXX"])
        ops = vlib.corpus_ops("C09") + component_ops(ctx, scratch)
        for op in ops:
            os.makedirs(os.path.dirname(op.split()[3]), exist_ok=True)
        if ok:
            n, impl, model, orc = ctx.correspond("components", h, vlib.driver("drv_c09"), ops,
                                                 cmp=lambda a, b, op: a == vlib.strip_branch(b),
                                                 oracle_key=lambda what, grp: "component:" + ":".join(what.split()[:2]).rstrip(":"))
            for op, il, ml in zip(ops, impl, model):
                w = op.split()
                ctx.count()
                ctx.branch("component-" + w[1])
                m = re.search(r"bytes=(\d+)", il)
                ctx.distinct((w[1], il), nontrivial=bool(m) and int(m.group(1)) > 24)
                if "#NOT-conforming" in ml:
                    ctx.broken_obligation("the value decoded from the bytes of %s is outside the domain `conf` of codec_roundtrip (op %r)" % (w[1], op))
            for i in (0, len(COMPONENTS) * 3 + 1, len(ops) - 1):
                if i < len(impl):
                    ctx.sample({"op": ops[i], "real classes": impl[i][:300], "lean codec": model[i][:300] if i < len(model) else None})
        else:
            # the Lean side does not build (reported above): the oracles of the real classes are still evaluated
            rc, out, err = vlib.run_exe(h, "\n".join(ops) + "\n")
            impl, orc = vlib.split_oracle(out)
            ctx.count(len(impl))
            for o in orc:
                m = re.search(r"line=(\d+)", o)
                i = int(m.group(1)) - 1 if m else 0
                what = re.sub(r"line=\d+\s*", "", o[len("ORACLE"):]).strip()
                ctx.violation("component:" + ":".join(what.split()[:2]).rstrip(":"), "property fails on the implementation: " + what,
                              {"stream": "components", "ops": [ops[i]] if i < len(ops) else [], "oracle": o})
        rule.append("(a) %d restartable classes driven through the real code (%d random states each: doubles over 40 decades incl. 0, -0, inf, DBL_MAX, denormal; boxes with dyadic and non-dyadic cell sizes; subgrids at a dump point, with copies): "
                    "write -> read (heap poisoned with 0xAA) -> write, bytes compared, not-stored members compared, continuation (next random numbers / time steps / forcing / mask / source update) compared; the same bytes decoded by the Lean reader with the generated schema, re-encoded and the code's own size log reproduced. Not driven: %s"
                    % (len(COMPONENTS), ctx.budget(12, 120), ", ".join(NOT_DRIVEN)))
    finally:
        shutil.rmtree(scratch, ignore_errors=True)
    # ---- (b) whole runs of the real binary
    binary = vlib.full_binary()
    nsteps = ctx.budget(6, 12)
    ncfg = ctx.budget(10, 64)
    forced = [{"feature": "plain", "dyadic": False, "layout": (2, 2, 1)}, {"feature": "plain", "dyadic": True, "layout": (1, 1, 1)},
              {"feature": "mask", "dyadic": False}, {"feature": "turbulence", "dyadic": False, "layout": (2, 1, 1)},
              {"feature": "gravity", "dyadic": False}, {"feature": "mask+turbulence", "dyadic": True, "layout": (2, 2, 2)}]
    cfgs = [gen_config(ctx.rng, i, nsteps, forced[i] if i < len(forced) else None) for i in range(ncfg)]
    root = tempfile.mkdtemp(prefix="verif_c09_runs_")
    dump_ops, dump_exp, dump_cfg = [], [], []
    try:
        with concurrent.futures.ThreadPoolExecutor(max_workers=8) as ex:
            futs = {ex.submit(experiment, binary, c, os.path.join(root, c["id"])): c for c in cfgs}
            results = [f.result() for f in concurrent.futures.as_completed(futs)]
        results.sort(key=lambda r: r["cfg"]["id"])
        nohook = 0
        for r in results:
            c = r["cfg"]
            ctx.count(r["runs"])
            dy = is_dyadic(c)
            ctx.branch("runs-" + c["feature"])
            ctx.branch("cellsize-" + ("dyadic" if dy else "non-dyadic"))
            ctx.branch("digests-compared", r["compared"])
            for b, n in r["branches"].items():
                ctx.branch("restart-" + b, n)
            ctx.distinct((c["id"], tuple(c["layout"]), tuple(c["cells"]), tuple(c["box"]), c["feature"]), nontrivial=r.get("state_changes", 0) >= 2 and r["restarts"] > 0)
            if len(ctx.cov["samples"]) < 6:
                ctx.sample({"layout": c["layout"], "cells per subgrid": c["cells"], "box": c["box"], "periodic": c["periodic"], "boundary": c["boundary"], "feature": c["feature"],
                            "steps": r.get("steps"), "runs": r["runs"], "restarts": r["restarts"], "digests compared": r["compared"], "distinct states over the steps": r.get("state_changes")})
            for (key, text, extra) in r["problems"]:
                if key == "machinery:no-digest":
                    nohook += 1
                    continue
                ctx.violation(key + ":" + c["feature"] if key.startswith("restart:") and c["feature"] != "plain" else key,
                              "%s [layout %s, %s cells per subgrid, box %s, %s, cell size %s]" % (text, c["layout"], c["cells"], c["box"], c["feature"], "dyadic" if dy else "non-dyadic"),
                              dict(extra, cfg=c, param=param_text(c), cmd="CMacIonize --params run.param --threads 1 --task-based-rhd --number-of-steps k ; ... --restart . --number-of-steps N"))
            if r.get("dump"):
                p = os.path.join(root, c["id"], "A", "restart.dump")
                dump_ops.append("dump %s %d %d" % (p, 1 if c.get("mask") else 0, 1 if c.get("turbulence") else 0))
                dump_exp.append((len(r["dump"]), fnv_bytes(r["dump"])) if len(r["dump"]) < 3000000 else None)
                dump_cfg.append(c)
        if nohook:
            ctx.broken_obligation("%d of %d configurations: no state digests in the trace of the real binary — the C09 digest hook (seeded/_hook_c09.diff: HydroDensitySubGrid::verif_state_digest + two call sites in TaskBasedRadiationHydrodynamicsSimulation.cpp) is not in this tree" % (nohook, len(results)))
        # the real restart.dump files decoded by the Lean reader with the generated top-level schema
        if ok and dump_ops:
            rc, out, err = vlib.run_exe(vlib.driver("drv_c09"), "\n".join(dump_ops) + "\n")
            lines = [l for l in out.split("\n") if l]
            st = ctx.cov["correspondence_streams"].setdefault("restart.dump", {"lines": 0, "mismatches": 0})
            st["lines"] += len(dump_ops)
            for op, exp, c, l in zip(dump_ops, dump_exp, dump_cfg, lines + ["<missing>"] * len(dump_ops)):
                ctx.count()
                if exp is None:
                    continue
                want = "dump bytes=%d rest=0 fnv=%d" % exp
                if not l.startswith(want) or not l.endswith("conf=true"):
                    st["mismatches"] += 1
                    ctx.broken_obligation("correspondence stream 'restart.dump': the dump written by the real binary (%s, layout %s) is not what the generated top-level schema describes: expected %r..., Lean reader: %r" % (c["feature"], c["layout"], want, l),
                                          json.dumps({"cfg": c, "param": param_text(c), "model": l}, default=str)[:3000])
                else:
                    ctx.branch("restart.dump-decoded-exactly")
            if lines:
                ctx.sample({"restart.dump of the real binary decoded by the Lean reader": lines[0]})
    finally:
        shutil.rmtree(root, ignore_errors=True)
    rule.append("(b) %d generated pure-hydro configurations (forced: non-dyadic and dyadic cell sizes, 1..8 subgrids, RescaledIC mask, Alvelius turbulence forcing, point-mass gravity; random: layouts, cells per subgrid, box, anchor, periodic/reflective/inflow/outflow boundaries, gamma, CFL, BlockSyntax initial condition with moving blobs), %d steps, 1 thread: "
                "stopped with --number-of-steps k and restarted for EVERY k, a chain restarted after every single step, a chain stopped through the stop file; every restarted process compared with the uninterrupted run by the digest of all cell states, limiters, geometry incl. derived members, bookkeeping members, time-step variables at its start and after every step, plus the final snapshot; "
                "distinct = configuration; non-trivial = the state changed in at least 2 steps and at least one restart was compared" % (ncfg, nsteps))
    ctx.cov["rule"] = " ".join(rule)
    ctx.cov["explanation"] = ("Lean theorems cover the restart mechanism (codec, schema equality of all %s restartable classes regenerated from the source, derived members, limiter reset, continuation for an abstract step); "
                              "the system-level statement is validated by replayable stop/restart experiments with the real binary and by write->read->write cycles of the real classes" % (len(info["classes"]) if info else "?"))


def replay(ctx, path):
    obj = json.load(open(path))
    print(json.dumps({k: v for k, v in obj.items() if k not in ("param", "cfg", "ops")}, indent=1)[:3000])
    if "ops" in obj:
        for op in obj["ops"]:
            w = op.split()
            if len(w) > 3 and w[0] == "comp":
                os.makedirs(os.path.dirname(w[3]), exist_ok=True)   # the scratch directory of the original run is gone
        return vlib.generic_replay(ctx, path, "c09", "drv_c09", cmp=lambda a, b, op: a == vlib.strip_branch(b), harness_kw={"extra": ["-DOMPI_SKIP_MPICXX"]})
    if "cfg" in obj:
        cfg = obj["cfg"]
        for k in ("layout", "cells", "box", "anchor", "periodic", "boundary"):
            cfg[k] = tuple(cfg[k])
        binary = vlib.full_binary()
        root = tempfile.mkdtemp(prefix="verif_c09_replay_")
        r = experiment(binary, cfg, root)
        print("parameter file:\n" + param_text(cfg))
        print("blocks.yml:\n" + cfg["blocks"])
        for p in r["problems"][:10]:
            print("  ", p[0], "-", p[1])
        print("directories kept in", root)
        print("REPRODUCED" if r["problems"] else "not reproduced")
        return 1 if r["problems"] else 0
    print("replay file names a broken obligation / a generated table, not an input; see the 'theorem' / 'broken' fields")
    return 1


MANIFEST = dict(
    category="other",
    text="Partial proof + replayable experiments. PROVED in Lean 4 (no sorry, standard axioms): codec_roundtrip — for EVERY restart schema (nested data-dependent loops, conditionals, factory tags) and every value, the reader (loop counts evaluated from what it has read, bool `> 0`, string through char*, map insertion) returns exactly what the writer wrote and consumes exactly its bytes, hence write->read->write is byte-identical; schemas_match — for every restartable class, factory and the top-level dump of TaskBasedRadiationHydrodynamicsSimulation the item list written equals the item list read (kinds, widths, order, loop counts), regenerated from the source on every run and decided by the kernel; derived_same_expression — every member of DensitySubGrid/HydroDensitySubGrid that is not stored is recomputed on restart by the same expression of stored members; transient_fields_reset — the not-stored limiter array has its constructor value at every dump point for every history of gradient sweeps; continuation_identical_partial / chain_identical_partial — these facts give a bit-identical continuation for every deterministic step function, every stop point and every chain of stop/restart cycles. all_members_classified (generated, decide) — EVERY data member of every restartable class (from the class definitions) and every variable of do_simulation that lives across steps is stored, stored through an expression, derived, transient, rebuilt from the stored parameter file, or excluded by the property statement (an unclassified member fails the build and is named); restore_dump_claimed / continuation_identical_members_partial — over the state (valuation of all members) the restart path rebuilds every claimed member and the continuation agrees on them if excluded members do not influence the others; continuation_identical_hydro — for C04/C10's statement-by-statement model of the hydro step (any flux, limiter, layout, time-step sequence) stop + restart after any step gives the same grid states, with no abstract-step hypothesis. NOT proved for the real code: that a step reads nothing but the listed members and is independent of the excluded ones. That clause is validated on every run: the real binary is stopped after EVERY step and restarted (also in chains and through the stop file) for generated configurations (dyadic/non-dyadic cell sizes, layouts, boundaries, mask, turbulence, gravity) and compared bit for bit with the uninterrupted run at every step; real components are cycled write->read->write with poisoned memory; bytes written by the real code are decoded by the Lean reader.",
    note="Trusted: Lean kernel + 3 axioms; translator tools/gen_c09_schemas.py (textual; fails closed; validated each run against bytes and size logs produced by the real code); digest hook (guard CMACIONIZE_VERIF); FNV-1a digests (a collision could hide a difference); one thread, pure hydro; old DensityGrid classes, StatisticsLogger, LiveOutputManager only schema-checked, not driven by the component harness.",
    technique="Lean 4 proof (induction over schemas; generated tables decided by the kernel) + translator + differential decode of real bytes + exhaustive stop/restart experiments over all stop points with per-step state digests")
