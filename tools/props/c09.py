"""C09 — a run stopped and restarted continues exactly (DESIGN §6 C09).

Parts (in the order they run):
 1. tools/gen_c09_schemas.py regenerates lean/CMacVerif/Gen/RestartSchemas.lean from the source
    (write list / read list of every restartable class and of the top-level dump, derived fields).
 2. Lean obligations CMacVerif.Props.C09 (codec_roundtrip, schemas_match, derived_same_expression,
    transient_fields_reset, continuation_identical_partial) + axiom audit.
 3. correspondence (a): harness/c09.cpp drives the real classes: write -> read -> write byte
    identity per component; the bytes the real writer produced are decoded by the Lean codec with
    the generated schema (driver drv_c09) and re-encoded: must be consumed exactly and reproduce
    the bytes; RESTARTWRITER_INFO / RESTARTREADER_INFO size logs of the real code = flattened schema.
 4. correspondence (b): the real hooked binary: pure-hydro runs stopped after EVERY step k and
    restarted, chains of stop/restart, compared with the uninterrupted run by per-step state
    digests (hook, seeded/_hook_c09.diff); the real restart.dump decoded by the Lean codec.
"""
import concurrent.futures
import hashlib
import json
import os
import re
import shutil
import sys
import tempfile

import vlib
import simrun

sys.path.insert(0, os.path.join(vlib.VERIF, "tools"))

GROUPS = ["primitives", "conserved", "delta_conserved", "gradients", "limiters(not stored)", "acceleration+energy terms",
          "ionization variables", "geometry incl. derived fields", "subgrid bookkeeping (not stored)",
          "requested_timestep", "actual_timestep", "current_time", "has_next_step", "hydro_lastsnap"]


# --------------------------------------------------------------------------- configurations

def fmt(x):
    return repr(float(x))


def make_blocks(rng, box):
    """a BlockSyntax density file: background + 2..3 blobs with different densities, temperatures, velocities"""
    n = rng.choice([2, 3, 4])
    out = ["number of blocks: %d" % n]
    for i in range(n):
        if i == 0:
            org = [0.5 * b for b in box]
            sides = [4. * max(box)] * 3
            typ = "cube"
        else:
            org = [rng.uniform(0.1, 0.9) * b for b in box]
            sides = [rng.uniform(0.25, 0.8) * min(box)] * 3
            typ = rng.choice(["sphere", "rhombus", "cube"])
        rho = rng.choice([0.3, 1., 3., 10.]) * rng.uniform(0.5, 1.5)
        T = rng.choice([50., 100., 300., 1000.]) * rng.uniform(0.5, 1.5)
        v = [rng.choice([0., 1., -1.]) * rng.uniform(10., 400.) for _ in range(3)]
        out += ["block[%d]:" % i,
                "  origin: [%s m, %s m, %s m]" % tuple(fmt(x) for x in org),
                "  sides: [%s m, %s m, %s m]" % tuple(fmt(x) for x in sides),
                "  type: %s" % typ,
                "  number density: %s m^-3" % fmt(rho),
                "  initial temperature: %s K" % fmt(T),
                "  initial velocity: [%s m s^-1, %s m s^-1, %s m s^-1]" % tuple(fmt(x) for x in v)]
    return "\n".join(out) + "\n"


def param_text(cfg):
    b = lambda v: "true" if v else "false"
    nx, ny, nz = cfg["layout"]
    nc = [cfg["layout"][i] * cfg["cells"][i] for i in range(3)]
    per = cfg["periodic"]
    bnd = [("periodic" if per[i] else cfg["boundary"][i]) for i in range(3)]
    box = cfg["box"]
    t = []
    t.append("SimulationBox:\n  anchor: [%s m, %s m, %s m]\n  sides: [%s m, %s m, %s m]\n  periodicity: [%s, %s, %s]" % (
        tuple(fmt(x) for x in cfg["anchor"]) + tuple(fmt(x) for x in box) + tuple(b(p) for p in per)))
    t.append("DensityGrid:\n  number of cells: [%d, %d, %d]" % tuple(nc))
    t.append("DensitySubGridCreator:\n  number of subgrids: [%d, %d, %d]\n  periodicity: [%s, %s, %s]" % (nx, ny, nz, b(per[0]), b(per[1]), b(per[2])))
    t.append("HydroBoundaryManager:\n" + "\n".join("  boundary %s %s: %s" % ("xyz"[i], hl, bnd[i]) for i in range(3) for hl in ("high", "low")))
    t.append("DensityFunction:\n  type: BlockSyntax\n  filename: blocks.yml")
    sim = ["TaskBasedRadiationHydrodynamicsSimulation:", "  total time: %s s" % fmt(cfg["total_time"]), "  do radiation: false",
           "  snapshot time: %s s" % fmt(cfg.get("snapshot_time", 1000.)), "  number of buffers: 2000", "  queue size per thread: 5000",
           "  shared queue size: 5000", "  number of tasks: 20000", "  CFL: %s" % fmt(cfg.get("cfl", 0.2))]
    if cfg.get("mask"):
        sim.append("  use mask: true")
    if cfg.get("turbulence"):
        sim.append("  turbulent forcing: true")
    if cfg.get("gravity"):
        sim.append("  external gravity: true")
    t.append("\n".join(sim))
    t.append("DensityGridWriter:\n  type: AsciiFile\n  prefix: snap")
    # the (unused) photon source must lie inside the box: the copy-level loop indexes a vector with its subgrid
    t.append("PhotonSourceDistribution:\n  type: SingleStar\n  position: [%s m, %s m, %s m]\n  luminosity: 1.e48 s^-1" % tuple(
        fmt(cfg["anchor"][j] + 0.5 * box[j]) for j in range(3)))
    t.append("Hydro:\n  polytropic index: %s" % cfg["gamma"])
    t.append("RestartManager:\n  output interval: %s s\n  maximum number of backups: %d" % (fmt(cfg.get("dump_interval", 0.)), cfg.get("backups", 1)))
    if cfg.get("mask"):
        m = cfg["mask"]
        t.append("HydroMask:\n  type: RescaledIC\n  center: [%s m, %s m, %s m]\n  radius: %s m\n  scale factor density: %s\n  scale factor velocity: %s\n  scale factor pressure: %s\n  delta t: 0. s" % (
            tuple(fmt(x) for x in m["center"]) + (fmt(m["radius"]), fmt(m["sd"]), fmt(m["sv"]), fmt(m["sp"]))))
    if cfg.get("turbulence"):
        u = cfg["turbulence"]
        t.append("TurbulenceForcing:\n  minimum wave number: 1.\n  maximum wave number: %s\n  peak forcing wave number: 1.5\n  concentration factor: 0.2\n  forcing power: %s m^2 s^-3\n  random seed: %d\n  time step: %s s\n  starting time: 0. s" % (
            fmt(u["kmax"]), fmt(u["power"]), u["seed"], fmt(u["dt"])))
    if cfg.get("gravity"):
        g = cfg["gravity"]
        t.append("ExternalPotential:\n  type: PointMass\n  position: [%s m, %s m, %s m]\n  mass: %s kg" % (tuple(fmt(x) for x in g["position"]) + (fmt(g["mass"]),)))
    return "\n".join(t) + "\n"


BOXES_DYADIC = [(1., 1., 1.), (2., 1., 0.5), (0.5, 0.25, 1.)]
BOXES_NONDYADIC = [(1., 1., 0.3), (0.7, 1.1, 0.9), (3., 1., 2.), (0.1, 0.1, 0.1), (1.e-3, 3.e-3, 7.e-3)]
LAYOUTS = [(1, 1, 1), (2, 1, 1), (1, 2, 2), (2, 2, 1), (2, 2, 2), (3, 1, 2), (1, 1, 3)]
CELLS = [(2, 2, 2), (3, 2, 2), (2, 3, 4), (3, 3, 3), (4, 2, 3), (1, 2, 3)]


def gen_config(rng, i, nsteps, force=None):
    force = force or {}
    cfg = {}
    feat = force.get("feature", rng.choice(["plain", "plain", "mask", "turbulence", "gravity", "mask+turbulence"]))
    cfg["layout"] = force.get("layout", rng.choice(LAYOUTS))
    cfg["cells"] = force.get("cells", rng.choice(CELLS))
    dy = force.get("dyadic", rng.random() < 0.35)
    cfg["box"] = rng.choice(BOXES_DYADIC if dy else BOXES_NONDYADIC)
    if "turbulence" in feat:
        s = rng.choice([1., 0.5] if dy else [0.7, 0.3, 1.1])
        cfg["box"] = (s, s, s)
    cfg["anchor"] = rng.choice([(0., 0., 0.), (-0.5 * cfg["box"][0], -0.5 * cfg["box"][1], -0.5 * cfg["box"][2]), (0.1, -0.3, 0.7)])
    cfg["periodic"] = tuple(rng.random() < 0.5 for _ in range(3))
    cfg["boundary"] = tuple(rng.choice(["reflective", "inflow", "outflow"]) for _ in range(3))
    cfg["gamma"] = rng.choice(["1.6666666667", "1.4", "1.1"])
    cfg["total_time"] = 1.e-3 * min(cfg["box"]) / 1.
    cfg["cfl"] = rng.choice([0.2, 0.3, 0.1])
    cfg["steps"] = nsteps
    box, anc = cfg["box"], cfg["anchor"]
    if "mask" in feat:
        cfg["mask"] = dict(center=[anc[j] + rng.uniform(0.3, 0.7) * box[j] for j in range(3)], radius=rng.uniform(0.3, 0.6) * max(box),
                           sd=rng.choice([0.01, 0.5, 1.]), sv=rng.choice([1., 0.5, 2.]), sp=rng.choice([0.01, 0.5, 1.]))
    if "turbulence" in feat:
        cfg["turbulence"] = dict(kmax=rng.choice([2., 3.]), power=rng.choice([1.e6, 1.e8]) * box[0] ** 2, seed=rng.randrange(1, 1000),
                                 dt=cfg["total_time"] / rng.choice([40., 200., 1000.]))
    if "gravity" in feat:
        cfg["gravity"] = dict(position=[anc[j] + rng.uniform(-0.5, 1.5) * box[j] for j in range(3)], mass=rng.choice([1.e12, 1.e14]) * min(box) ** 3)
    cfg["feature"] = feat
    cfg["blocks"] = make_blocks(rng, [box[j] for j in range(3)]) if True else ""
    # blocks are placed relative to the anchor
    cfg["blocks"] = shift_blocks(cfg["blocks"], anc)
    cfg["id"] = "cfg%03d" % i
    return cfg


def shift_blocks(text, anc):
    def rep(m):
        v = [float(x) for x in re.findall(r"([-+0-9.eE]+) m", m.group(0))]
        return "origin: [%s m, %s m, %s m]" % tuple(fmt(v[j] + anc[j]) for j in range(3))
    return re.sub(r"origin: \[[^\]]*\]", rep, text)


def is_dyadic(cfg):
    """is the cell size exactly representable (then ncell/side == 1/(side/ncell) holds exactly)"""
    from fractions import Fraction
    for j in range(3):
        n = cfg["layout"][j] * cfg["cells"][j]
        if Fraction(cfg["box"][j]) / n != Fraction(cfg["box"][j] / n):
            return False
    return True


# --------------------------------------------------------------------------- running

def digests(trace):
    """{(kind, step): [fields]} from the hook's D events"""
    d = {}
    for l in trace:
        w = l.split()
        if len(w) > 4 and w[1] == "D":
            d[(int(w[2]), int(w[3]))] = w[4:]
    return d


class Runner:
    def __init__(self, binary, cfg, root):
        self.binary, self.cfg, self.root = binary, cfg, root
        self.param = param_text(cfg)
        self.nruns = 0

    def run(self, d, args, env=None, stopfile=False, timeout=120):
        d = os.path.join(self.root, d)
        os.makedirs(d, exist_ok=True)
        with open(os.path.join(d, "blocks.yml"), "w") as f:
            f.write(self.cfg["blocks"])
        if stopfile:
            open(os.path.join(d, "stop"), "w").close()
        self.nruns += 1
        r = simrun.run_sim(self.binary, self.param, ["--task-based-rhd"] + list(args), threads=1, workdir=d, keep=True, env=env, timeout=timeout)
        r["digests"] = digests(r["trace"])
        return r


def diff_fields(a, b):
    return [GROUPS[i] if i < len(GROUPS) else "field%d" % i for i in range(max(len(a), len(b))) if i >= len(a) or i >= len(b) or a[i] != b[i]]


def last_snapshot(d):
    fs = sorted(f for f in os.listdir(d) if re.match(r"snap\d+\.txt$", f))
    return (fs[-1], open(os.path.join(d, fs[-1]), "rb").read()) if fs else (None, b"")


def experiment(binary, cfg, root, keep_dump=True):
    """the whole stop/restart experiment of one configuration.
    returns dict(problems=[(key, text, replay-extra)], runs, compared, dump (bytes of a real restart.dump), ...)"""
    R = Runner(binary, cfg, root)
    N = cfg["steps"]
    res = dict(problems=[], runs=0, compared=0, restarts=0, branches={}, cfg=cfg)
    prob = res["problems"]

    def br(x):
        res["branches"][x] = res["branches"].get(x, 0) + 1
    A = R.run("A", ["--number-of-steps", str(N)])
    if A["timed_out"] or A["rc"] != 0:
        prob.append(("restart:run-failed", "uninterrupted run exited with status %s: %s" % (A["rc"], A["log"][-300:]), {"mode": "uninterrupted"}))
        res["runs"] = R.nruns
        return res
    DA = A["digests"]
    nA = max([s for (k, s) in DA if k == 1] or [0])
    if (0, 0) not in DA or nA < 2:
        prob.append(("machinery:no-digest", "no state digests in the trace of the uninterrupted run (hook missing?) or fewer than 2 steps (%d)" % nA, {"mode": "uninterrupted"}))
        res["runs"] = R.nruns
        return res
    N = min(N, nA)
    res["steps"] = N
    res["state_changes"] = len(set(tuple(DA[(1, s)][:2]) for s in range(1, N + 1)))
    snapA = last_snapshot(os.path.join(root, "A"))
    try:
        res["dump"] = open(os.path.join(root, "A", "restart.dump"), "rb").read()
    except OSError:
        res["dump"] = b""
        prob.append(("restart:no-dump", "the uninterrupted run wrote no restart.dump although the output interval is 0", {"mode": "uninterrupted"}))

    def compare(tag, k, D, mode, final_dir=None):
        """D: digests of a restarted run that started from the dump after step k"""
        bad = False
        if (0, k) not in D:
            prob.append(("restart:restarted-state-missing", "%s: restarted run (dump after step %d) logged no initial digest for step %d" % (tag, k, k), {"mode": mode, "k": k}))
            return
        res["compared"] += 1
        f = diff_fields(D[(0, k)], DA[(1, k)])
        if f:
            bad = True
            transient = [x for x in f if "not stored" in x]
            key = "restart:transient-field-differs-after-restart" if len(transient) == len(f) else "restart:restored-state-differs"
            prob.append((key, "%s: state of the simulation restarted from the dump after step %d differs from the dumped state in: %s" % (tag, k, ", ".join(f)), {"mode": mode, "k": k, "step": k}))
        for (kind, s), v in sorted(D.items()):
            if kind != 1:
                continue
            res["compared"] += 1
            if (1, s) not in DA:
                continue
            f = diff_fields(v, DA[(1, s)])
            if f and not bad:
                bad = True
                prob.append(("restart:continuation-differs", "%s: stopped after step %d and restarted; state after step %d differs from the uninterrupted run in: %s" % (tag, k, s, ", ".join(f)), {"mode": mode, "k": k, "step": s}))
        if final_dir and not bad:
            sn = last_snapshot(final_dir)
            if sn != snapA:
                prob.append(("restart:final-snapshot-differs", "%s: final snapshot %s of the run restarted after step %d differs from the uninterrupted run's %s" % (tag, sn[0], k, snapA[0]), {"mode": mode, "k": k}))

    # (1) stop after every k with --number-of-steps k, restart, run to N
    for k in range(1, N):
        d = "B%d" % k
        r1 = R.run(d, ["--number-of-steps", str(k)])
        if r1["rc"] != 0:
            prob.append(("restart:run-failed", "run stopped with --number-of-steps %d exited with status %s: %s" % (k, r1["rc"], r1["log"][-300:]), {"mode": "stop", "k": k}))
            continue
        r2 = R.run(d, ["--restart", ".", "--number-of-steps", str(N)])
        res["restarts"] += 1
        br("stop-every-k")
        if r2["rc"] != 0 or r2["timed_out"]:
            prob.append(("restart:restarted-run-failed", "run restarted from the dump after step %d exited with status %s: %s" % (k, r2["rc"], r2["log"][-300:]), {"mode": "stop", "k": k}))
            continue
        compare("stop/restart", k, r2["digests"], "stop", os.path.join(root, d))
    # (2) chain: stop after every single step, restart from the previous run's dump each time
    r = R.run("C", ["--number-of-steps", "1"])
    for k in range(1, N):
        if r["rc"] != 0:
            prob.append(("restart:restarted-run-failed", "chain of stop/restart cycles: run number %d exited with status %s: %s" % (k, r["rc"], r["log"][-300:]), {"mode": "chain", "k": k}))
            break
        r = R.run("C", ["--restart", ".", "--number-of-steps", str(k + 1)])
        res["restarts"] += 1
        br("chain")
        if r["rc"] == 0:
            compare("chain of %d stop/restart cycles" % k, k, r["digests"], "chain", os.path.join(root, "C") if k + 1 == N else None)
    # (3) stop requested through the stop file (default dump interval: the only dumps are the requested ones)
    cfg2 = dict(cfg, dump_interval=3600.)
    R2 = Runner(binary, cfg2, root)
    r = R2.run("S", [], stopfile=True)
    k = 1
    nchain = min(N - 1, 3)
    while r["rc"] == 0 and k <= nchain:
        if not os.path.exists(os.path.join(root, "S", "restart.dump")):
            prob.append(("restart:no-dump", "a stop file was present but the run wrote no restart.dump", {"mode": "stopfile", "k": k}))
            break
        last = (k == nchain)
        r = R2.run("S", ["--restart", "."] + (["--number-of-steps", str(N)] if last else []), stopfile=not last)
        res["restarts"] += 1
        br("stop-file")
        if r["rc"] == 0:
            compare("stop file, cycle %d" % k, k, r["digests"], "stopfile")
        else:
            prob.append(("restart:restarted-run-failed", "run restarted after a stop-file stop (cycle %d) exited with status %s: %s" % (k, r["rc"], r["log"][-300:]), {"mode": "stopfile", "k": k}))
        k += 1
    res["runs"] = R.nruns + R2.nruns
    return res
