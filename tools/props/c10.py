"""C10 — hydro results do not depend on subgrid layout or number of threads (DESIGN §6 C10).

Shares the machinery of C04 (tools/props/c04.py): runs of the real hooked binary, decoding of the
per-call log and of the full state dump (hook H3)."""
import collections
import itertools
import json
import math
import vlib
import simrun
from props import c04

TOL_PER_FACE = 1.e-13     # relative difference between two layouts / thread counts, times the number of faces
TOL_CAP = 1.e-12          # never looser than this (measured worst difference: 2e-16)
FIELDS = ["mass", "px", "py", "pz", "energy", "density", "vx", "vy", "vz", "pressure"]


def factorizations(ncell):
    """all (layout, cells) with layout*cells = ncell per axis, 1..3 subgrids, >= 1 cell"""
    per_axis = []
    for n in ncell:
        per_axis.append([(s, n // s) for s in (1, 2, 3) if n % s == 0])
    return [(tuple(x[0] for x in combo), tuple(x[1] for x in combo)) for combo in itertools.product(*per_axis)]


def state_by_cell(tr, step, phase, ncell, box):
    """{(X,Y,Z): [10 floats]} from the dump, cells identified by their midpoints"""
    d = tr.steps[step]["dump"][phase]
    coords = c04.cell_coords_from_midpoints(d, ncell, box)
    if coords is None:
        return None, None
    out = {}
    bits = {}
    for key, rec in d.items():
        out[coords[key]] = [vlib.bits2f(x) for x in rec[3:13]]
        bits[coords[key]] = rec[3:13]
    return out, bits


def scales(ref, g):
    """one absolute scale per field, from the reference state"""
    mx = lambda j: max(abs(v[j]) for v in ref.values())
    pm = max(math.sqrt(2 * max(v[0], 0) * max(v[4], 0)) for v in ref.values())
    cs = max((abs(v[6]) + abs(v[7]) + abs(v[8]) + (math.sqrt(g * v[9] / v[5]) if v[5] > 0 and v[9] > 0 else 0.0)) for v in ref.values())
    return [mx(0), pm, pm, pm, mx(4), mx(5), cs, cs, cs, mx(9)]


def compare_states(a, b, sc, tol):
    """-> (worst relative difference, (cell, field, va, vb)) over all cells and fields"""
    worst, where = 0.0, None
    if set(a) != set(b):
        return float("inf"), ("cell sets differ", None, None, None)
    for X in a:
        for j in range(10):
            x, y = a[X][j], b[X][j]
            if x == y:
                continue
            if x != x or y != y:
                return float("inf"), (X, FIELDS[j], x, y)
            d = abs(x - y) / sc[j] if sc[j] > 0 else float("inf")
            if d > worst:
                worst, where = d, (X, FIELDS[j], x, y)
    return worst, where


def global_calls(tr, step, kind, ncell, box):
    st = tr.steps[step]
    coords = c04.cell_coords_from_midpoints(st["dump"][0], ncell, box)
    obs, bad = c04.observed_calls(tr, st, kind)
    glob = collections.Counter()
    for c, n in obs.items():
        if c[0] == "p":
            glob[("p", coords[(c[1], c[2])], coords[(c[3], c[4])], c[5])] += n
        else:
            glob[("b", coords[(c[1], c[2])], c[3], c[4])] += n
    return glob


SLOT_PHASE = [0] * 7 + [1, 2] + [3] * 7 + [4, 5]


def dependence_violations(tr, step):
    """the hypothesis of schedule independence on the real schedule: a task of a later phase that touches a
    subgrid must not start before every task of an earlier phase that touches the same subgrid has finished"""
    start, finish = {}, {}
    for pos, (k, t) in enumerate(tr.steps[step]["order"]):
        (start if k == "A" else finish).setdefault(t, pos)
    by_sub = collections.defaultdict(list)
    for t, foot in tr.taskfoot.items():
        for g in foot:
            by_sub[g].append(t)
    bad = []
    for g, ts in by_sub.items():
        for a in ts:
            pa = SLOT_PHASE[tr.tasktype[a][1]]
            for b_ in ts:
                if pa < SLOT_PHASE[tr.tasktype[b_][1]] and a in finish and b_ in start and not finish[a] < start[b_]:
                    bad.append((g, tr.tasktype[a], tr.tasktype[b_]))
    return bad


def graph_dependence_violations(tr):
    """`dependences_ordered_by_graph` on the implementation's own task table: every task of a later phase
    that touches a subgrid must be a descendant (child lists as dumped) of every task of an earlier phase
    that touches the same subgrid"""
    desc = {}

    def descendants(t):
        if t not in desc:
            d = set()
            for ch in tr.children.get(t, []):
                d.add(ch)
                d |= descendants(ch)
            desc[t] = d
        return desc[t]
    by_sub = collections.defaultdict(list)
    for t, foot in tr.taskfoot.items():
        for g in foot:
            by_sub[g].append(t)
    bad = []
    for g, ts in by_sub.items():
        for a in ts:
            pa = SLOT_PHASE[tr.tasktype[a][1]]
            da = descendants(a)
            for b_ in ts:
                if pa < SLOT_PHASE[tr.tasktype[b_][1]] and b_ not in da:
                    bad.append((g, tr.tasktype[a], tr.tasktype[b_]))
    return bad


def one_case(ctx, binary, drv10, max_cells):
    rng = ctx.rng
    while True:
        layout = tuple(rng.choice([1, 2, 2, 3]) for _ in range(3))
        cells = tuple(rng.choice([2, 3, 4, 5, 6]) for _ in range(3))
        ncell = [layout[a] * cells[a] for a in range(3)]
        if ncell[0] * ncell[1] * ncell[2] <= max_cells and layout != (1, 1, 1):
            break
    per = rng.choice(c04.PERS)
    g = rng.choice(c04.GAMMAS[:4])
    kind = rng.choice(["smooth", "jump", "blast", "nearvac", "random", "random", "smooth"])
    box = rng.choice([(1., 1., 1.), (1., 1., 1.), (2., 1., 0.5)])
    states = c04.initial_state(rng, ncell, kind, g, per)
    threads = rng.choice([2, 4, 8])
    others = [f for f in factorizations(ncell) if f[0] != layout and f[0] != (1, 1, 1)]
    runs = [("layout", layout, cells, threads), ("reference 1x1x1 sequential", (1, 1, 1), tuple(ncell), 1),
            ("same layout, one thread", layout, cells, 1), ("same layout, one thread, again", layout, cells, 1)]
    if others:
        l2, c2 = rng.choice(others)
        runs.append(("another layout", l2, c2, rng.choice([1, 2, 4, 8])))
    runs.append(("same layout, other thread count", layout, cells, rng.choice([t for t in (1, 2, 4, 8) if t != threads])))
    cfg = dict(layout=layout, cells=cells, per=per, g=g, kind=kind, box=box, threads=threads, ncell=ncell)
    rep = dict(cfg, states=[[list(k), list(v[:2]) + [list(v[2])]] for k, v in sorted(states.items())])
    tag = "global grid %s periodic %s gamma %.4g %s" % (ncell, per, g, kind)
    results = {}
    for (name, lay, cel, thr) in runs:
        res = c04.run_hydro(binary, lay, per, cel, g, states, thr, steps=1, box=box)
        ctx.count()
        if res["timed_out"] or res["rc"] != 0:
            ctx.violation("run:failed", "hydro run failed (%s, layout %s, %d threads, %s): %s" % (name, lay, thr, tag, res["log"][-300:]), dict(rep, run=name, run_layout=lay, run_cells=cel, run_threads=thr))
            return
        tr = c04.Trace(res["trace"])
        if not tr.steps or not tr.steps[0]["dump"][1]:
            ctx.broken_obligation("no state dump in the trace (hook H3 for C04/C10 missing in this tree?) " + tag, res["log"][-300:])
            return
        st, bits = state_by_cell(tr, 0, 1, ncell, box)
        st0, bits0 = state_by_cell(tr, 0, 0, ncell, box)
        if st is None:
            ctx.broken_obligation("cell midpoints of the dump are not cell centres of the %s grid (%s)" % (ncell, name), "")
            return
        results[name] = dict(state=st, bits=bits, state0=st0, tr=tr, layout=lay, cells=cel, threads=thr)
        gv = graph_dependence_violations(tr)
        if gv:
            g_, ta, tb = gv[0]
            ctx.violation("schedule:dependence-not-in-task-graph", "the constructed task graph does not order task (subgrid %d slot %d) before task (subgrid %d slot %d) although both touch subgrid %d and the second belongs to a later phase (%d such pairs; layout %s periodic %s): their order, hence the result, depends on the schedule"
                          % (ta[0], ta[1], tb[0], tb[1], g_, len(gv), lay, per), dict(rep, run=name, run_layout=lay, run_cells=cel, run_threads=thr))
        dv = dependence_violations(tr, 0)
        ctx.branch("schedules-checked-against-data-dependences")
        if dv:
            g_, ta, tb = dv[0]
            ctx.violation("schedule:data-dependence-violated", "task (subgrid %d slot %d) of a later phase started before task (subgrid %d slot %d), which touches the same subgrid %d, had finished (%d such pairs; layout %s, %d threads, %s)"
                          % (tb[0], tb[1], ta[0], ta[1], g_, len(dv), lay, thr, tag), dict(rep, run=name, run_layout=lay, run_cells=cel, run_threads=thr, trace=[l for l in res["trace"] if l.split()[1] in "AFT"][:3000]))
    ref = results["reference 1x1x1 sequential"]
    nfaces = sum(c04.python_grid_faces(ncell, per).values())
    tol = min(TOL_PER_FACE * nfaces, TOL_CAP)
    sc = scales(ref["state"], g)
    stream = ctx.cov["correspondence_streams"].setdefault("state-dumps", {"lines": 0, "mismatches": 0, "oracle_failures": 0})
    ctx.distinct((tuple(ncell), layout, per, kind, threads))
    ctx.branch("init-" + kind)
    ctx.branch("periodic" if all(per) else "walls")
    # the initial states must be the same state (same input): compare loosely, it is the test set-up
    for name, r in results.items():
        w0, where0 = compare_states(ref["state0"], r["state0"], scales(ref["state0"], g), 1e-12)
        if w0 > 1e-12:
            ctx.broken_obligation("test set-up: initial states of the runs differ by %.2e at %r (%s, %s)" % (w0, where0, name, tag), "")
            return
    worst_all = 0.0
    for name, r in results.items():
        if name == "reference 1x1x1 sequential":
            continue
        w, where = compare_states(ref["state"], r["state"], sc, tol)
        stream["lines"] += len(ref["state"]) * 10
        worst_all = max(worst_all, w)
        if w > tol:
            stream["oracle_failures"] += 1
            key = "layout:state-differs-from-sequential-sweep"
            ctx.violation(key, "after one step cell %r %s = %r with layout %s cells %s (%d threads) but %r in the undivided 1x1x1 grid: relative difference %.3e > %.1e (%s)"
                          % (where[0], where[1], where[3], r["layout"], r["cells"], r["threads"], where[2], w, tol, tag),
                          dict(rep, run=name, run_layout=r["layout"], run_cells=r["cells"], run_threads=r["threads"]))
    # threads: same layout, different thread counts
    a, bq = results["layout"], results["same layout, other thread count"]
    w, where = compare_states(a["state"], bq["state"], sc, tol)
    worst_all = max(worst_all, w)
    if w > tol:
        stream["oracle_failures"] += 1
        ctx.violation("threads:state-differs", "after one step cell %r %s differs between %d and %d threads on the same layout: %r vs %r (relative %.3e > %.1e, %s)"
                      % (where[0], where[1], a["threads"], bq["threads"], where[2], where[3], w, tol, tag),
                      dict(rep, run="threads", run_layout=layout, run_cells=cells, run_threads=bq["threads"]))
    # one thread twice: bit for bit
    r1, r2 = results["same layout, one thread"], results["same layout, one thread, again"]
    nb = sum(1 for X in r1["bits"] if r1["bits"][X] != r2["bits"].get(X))
    ctx.branch("one-thread-pairs")
    if nb:
        stream["oracle_failures"] += 1
        X = [X for X in r1["bits"] if r1["bits"][X] != r2["bits"].get(X)][0]
        ctx.violation("onethread:not-bit-identical", "two runs with one thread of the same input differ in %d cells, e.g. cell %r: %r vs %r (%s)" % (nb, X, r1["state"][X], r2["state"][X], tag),
                      dict(rep, run="one-thread", run_layout=layout, run_cells=cells, run_threads=1))
    else:
        ctx.branch("one-thread-bit-identical")
    # the calls themselves: same multiset in global cell terms for every layout (implementation level)
    for kindc in ("f", "g"):
        gref = global_calls(ref["tr"], 0, kindc, ncell, box)
        for name, r in results.items():
            if name.startswith("same layout, one thread, again") or name == "reference 1x1x1 sequential":
                continue
            gl = global_calls(r["tr"], 0, kindc, ncell, box)
            stream["lines"] += sum(gref.values())
            if gl != gref:
                stream["oracle_failures"] += 1
                ctx.violation("layout:call-multiset-differs", "the %s calls of layout %s cells %s are not the calls of the undivided grid: only there %r, only here %r (%s)"
                              % ("flux" if kindc == "f" else "gradient", r["layout"], r["cells"], list((gref - gl).items())[:3], list((gl - gref).items())[:3], tag),
                              dict(rep, run=name, run_layout=r["layout"], run_cells=r["cells"], run_threads=r["threads"]))
    ctx.cov["worst_relative_state_difference"] = max(ctx.cov.get("worst_relative_state_difference", 0.0), worst_all)
    # the Lean statement instantiated on these layouts (executable instance of the theorems)
    ops = []
    head = lambda lay, cel: "%d %d %d %d %d %d %d %d %d" % (lay + tuple(int(p) for p in per) + cel)
    for name, r in results.items():
        ops.append("same %s %s" % (head(layout, cells), head(r["layout"], r["cells"])))
        ops.append("seq %s" % head(r["layout"], r["cells"]))
    rc, out, err = vlib.run_exe(drv10, "\n".join(ops) + "\n")
    lines = [l for l in out.split("\n") if l]
    st2 = ctx.cov["correspondence_streams"].setdefault("lean-instances", {"lines": 0, "mismatches": 0})
    for op, l in zip(ops, lines):
        st2["lines"] += 1
        w = l.split()
        okl = (w[:4] == ["G", "1", "P", "1"]) if op.startswith("same") else (w[:2] == ["P", "1"])
        n_impl = sum(c04.python_grid_faces(ncell, per).values())
        if not okl or int(w[-1]) != n_impl:
            st2["mismatches"] += 1
            ctx.broken_obligation("Lean model: %r gives %r (expected a permutation of %d calls)" % (op, l, n_impl), "")
    if len(ctx.cov["samples"]) < 4:
        ctx.sample({"global_grid": ncell, "layout": layout, "cells": cells, "periodic": per, "kind": kind, "threads": threads, "faces": nfaces,
                    "worst_relative_difference_to_sequential": worst_all, "tolerance": tol})


# ------------------------------------------------------------------ untraced stress runs under scheduling jitter
# With CMAC_VERIF_TRACE set the release of the children of a finished task runs inside the hook's global mutex,
# which serialises exactly the code in which a scheduling race would show.  These runs therefore use NO trace:
# only the H1 yield hook (LD_PRELOAD harness/c10_jitter.cpp) and the snapshot the code writes itself.
STRESS_TOL = 1.e-11       # final state after ~15 steps, N threads vs 1 thread (measured on /repo: <= 2e-15)
JITTER_LIB = [None]
SNAP_TOOL = [None]


def jitter_lib():
    import os
    os.makedirs(vlib.BIN, exist_ok=True)
    out = os.path.join(vlib.BIN, "libc10_jitter.so")
    src = os.path.join(vlib.VERIF, "harness", "c10_jitter.cpp")
    if not os.path.exists(out) or os.path.getmtime(out) < os.path.getmtime(src):
        rc, o = vlib.sh(["g++", "-O1", "-shared", "-fPIC", "-o", out + ".tmp", src])
        if rc != 0:
            raise RuntimeError("jitter library does not compile: " + o[-1000:])
        os.replace(out + ".tmp", out)
    return os.path.realpath(out)


def read_snapshot(path, setup):
    """{cell: [rho, vx, vy, vz, P]} of a Gadget snapshot written by the code (harness/c10_snap.cpp), or None"""
    rc, out, err = vlib.run_exe(SNAP_TOOL[0], "", args=[path])
    data = {}
    for l in out.split("\n"):
        w = l.split()
        if len(w) > 3:
            data[w[0]] = (int(w[1]), int(w[2]), [vlib.bits2f(x) for x in w[3:]])
    if any(k not in data for k in ("Coordinates", "Density", "Velocities", "Pressure")):
        return None
    state = {}
    for i in range(data["Coordinates"][0]):
        X = tuple(round(data["Coordinates"][2][3 * i + k] * setup["ncell"][k] / setup["box"][k] - 0.5) for k in range(3))
        state[X] = [data["Density"][2][i]] + data["Velocities"][2][3 * i:3 * i + 3] + [data["Pressure"][2][i]]
    return state


def stress_run(binary, setup, threads, jitter, timeout=60, want_first=False):
    """one untraced run to its natural end; returns (status, {cell: [rho, vx, vy, vz, P]} or None, log tail)
    (+ the state of the first snapshot, t = 0, when want_first)"""
    import os
    import shutil
    import tempfile
    if JITTER_LIB[0] is None:
        JITTER_LIB[0] = jitter_lib()
        SNAP_TOOL[0] = vlib.build_harness("c10_snap")
    d = tempfile.mkdtemp(prefix="verif_c10s_")
    try:
        with open(os.path.join(d, "blocks.yml"), "w") as f:
            f.write(setup["blocks"])
        env = {}
        if jitter:
            env["LD_PRELOAD"] = JITTER_LIB[0]
            env["CMAC_VERIF_JITTER10"] = jitter
        res = simrun.run_sim(binary, setup["param"], ["--task-based-rhd"], threads=threads, timeout=timeout, trace=False, env=env, workdir=d)
        extra = (None,) if want_first else ()
        if res["timed_out"]:
            return ("hang", None, res["log"][-400:]) + extra
        if res["rc"] != 0:
            return ("crash(%s)" % res["rc"], None, res["log"][-400:]) + extra
        snaps = sorted(f for f in os.listdir(d) if f.startswith("snap") and f.endswith(".hdf5"))
        if not snaps:
            return ("no-snapshot", None, res["log"][-400:]) + extra
        state = read_snapshot(os.path.join(d, snaps[-1]), setup)
        if state is None:
            return ("bad-snapshot", None, "") + ((None,) if want_first else ())
        first = read_snapshot(os.path.join(d, snaps[0]), setup) if want_first else None
        steps = sum(1 for l in res["log"].split("\n") if "Starting hydro step " in l)
        return ("ok:%d" % steps, state, "") + ((first,) if want_first else ())
    finally:
        shutil.rmtree(d, ignore_errors=True)


def stress_compare(ref, st, g):
    sc_rho = max(abs(v[0]) for v in ref.values())
    sc_P = max(abs(v[4]) for v in ref.values())
    sc_v = max(abs(v[1]) + abs(v[2]) + abs(v[3]) + (math.sqrt(g * v[4] / v[0]) if v[0] > 0 and v[4] > 0 else 0.0) for v in ref.values())
    sc = [sc_rho, sc_v, sc_v, sc_v, sc_P]
    worst, where = 0.0, None
    if set(ref) != set(st):
        return float("inf"), ("cell sets differ", None, None, None)
    for X in ref:
        for j in range(5):
            x, y = ref[X][j], st[X][j]
            if x == y:
                continue
            dlt = abs(x - y) / sc[j] if (x == x and y == y and sc[j] > 0) else float("inf")
            if dlt > worst:
                worst, where = dlt, (X, ["density", "vx", "vy", "vz", "pressure"][j], x, y)
    return worst, where


def stress_stream(ctx, binary, nsetups, njit):
    rng = ctx.rng
    stream = ctx.cov["correspondence_streams"].setdefault("untraced-jitter", {"lines": 0, "mismatches": 0, "oracle_failures": 0})
    for _ in range(nsetups):
        layout = rng.choice([(2, 2, 2), (3, 2, 2), (2, 3, 2), (3, 3, 2), (2, 2, 3)])
        cells = (2, 2, 2)
        per = rng.choice([(True, True, True), (False, False, False), (True, False, True), (True, True, True)])
        g = rng.choice(c04.GAMMAS[:4])
        kind = rng.choice(["random", "jump", "smooth", "random"])
        ncell = [layout[a] * cells[a] for a in range(3)]
        box = (1., 1., 1.)
        states = c04.initial_state(rng, ncell, kind, g, per)
        # ~10-20 steps: the code halves its time line until the step fits the CFL step (~4e-6 s for these set-ups)
        total = rng.choice([4.e-5, 6.e-5, 8.e-5])
        param = c04.make_param(layout, per, cells, g, states, box=box, total_time=total).replace("  type: AsciiFile", "  type: Gadget")
        setup = dict(param=param, blocks=c04.block_density(ncell, box, states), ncell=ncell, box=box)
        tag = "layout %s periodic %s gamma %.4g %s total time %g" % (layout, per, g, kind, total)
        rep0 = dict(layout=layout, cells=cells, per=per, g=g, kind=kind, ncell=ncell, box=box, param=param, blocks=setup["blocks"], stress=True)
        status, ref, log = stress_run(binary, setup, 1, None)
        ctx.count()
        if ref is None:
            ctx.violation("stress:one-thread-run-" + status.split("(")[0], "the one-thread reference run ended with %s (%s): %s" % (status, tag, log), dict(rep0, threads=1, jitter=None))
            continue
        ctx.branch("stress-setups")
        for _ in range(njit):
            threads = rng.choice([4, 8, 16])
            jitter = "%d:%d:%d:%d:%d" % (rng.randrange(1, 10 ** 6), rng.choice([300, 600, 900]), rng.choice([20, 60, 150]), rng.choice([2, 5, 20]), rng.choice([5, 30, 100]))
            status, st, log = stress_run(binary, setup, threads, jitter)
            ctx.count()
            ctx.branch("stress-runs")
            ctx.branch("stress-threads-%d" % threads)
            ctx.distinct(("stress", layout, per, kind, threads, jitter))
            rep = dict(rep0, threads=threads, jitter=jitter,
                       cmd="LD_PRELOAD=libc10_jitter.so CMAC_VERIF_JITTER10=%s CMacIonize --params run.param --task-based-rhd --threads %d   (no CMAC_VERIF_TRACE)" % (jitter, threads))
            stream["lines"] += len(ref) * 5
            if st is None:
                stream["oracle_failures"] += 1
                ctx.violation("stress:" + status.split("(")[0].split(":")[0], "untraced run with %d threads under scheduling jitter %s ended with %s (%s): %s" % (threads, jitter, status, tag, log), rep)
                continue
            if status != "ok:%s" % "" and ref is not None:
                pass
            w, where = stress_compare(ref, st, g)
            ctx.cov["worst_relative_stress_difference"] = max(ctx.cov.get("worst_relative_stress_difference", 0.0), w if w != float("inf") else 1e300)
            if w > STRESS_TOL:
                stream["oracle_failures"] += 1
                ctx.violation("stress:final-state-depends-on-schedule", "final snapshot of an untraced run with %d threads under scheduling jitter %s differs from the one-thread run of the same set-up: cell %r %s = %r vs %r (relative %.3e > %.1e; %s)"
                              % (threads, jitter, where[0], where[1], where[3], where[2], w, STRESS_TOL, tag), rep)


def restart_twins(ctx, binary, ntwins):
    """one thread, same input: a run to its natural end against the same run stopped after k steps
    (`--number-of-steps k`, restart dump after every step) and continued with `--restart .`; the final
    snapshots the code writes must agree bit for bit.  (Stop / restart as such is C09's property; this twin only
    extends "one thread => bit-for-bit reproducible" to a state that went through dump and restore.)"""
    import os
    import shutil
    import tempfile
    rng = ctx.rng
    if JITTER_LIB[0] is None:
        JITTER_LIB[0] = jitter_lib()
        SNAP_TOOL[0] = vlib.build_harness("c10_snap")
    stream = ctx.cov["correspondence_streams"].setdefault("restart-twins", {"lines": 0, "mismatches": 0, "oracle_failures": 0})
    for _ in range(ntwins):
        layout = rng.choice([(2, 2, 2), (2, 1, 2), (1, 2, 2), (2, 2, 1)])
        cells = rng.choice([(3, 3, 3), (4, 3, 2), (2, 4, 3)])
        per = (True, True, True)
        g = rng.choice(c04.GAMMAS[:4])
        ncell = [layout[a] * cells[a] for a in range(3)]
        box = (1., 1., 1.)
        states = c04.initial_state(rng, ncell, "negjump", g, per)
        param = c04.make_param(layout, per, cells, g, states, box=box, total_time=3.e-5).replace("  type: AsciiFile", "  type: Gadget") \
            .replace("  output interval: 100000. s", "  output interval: 0. s")
        setup = dict(param=param, blocks=c04.block_density(ncell, box, states), ncell=ncell, box=box)
        k = rng.choice([1, 2, 3, 5])
        tag = "layout %s cells/subgrid %s gamma %.4g, stopped after step %d" % (layout, cells, g, k)
        rep = dict(layout=layout, cells=cells, per=per, g=g, ncell=ncell, box=box, param=param, blocks=setup["blocks"], restart_twin=True, k=k,
                   cmd="CMacIonize --params run.param --task-based-rhd --threads 1   vs   ... --number-of-steps %d ; ... --restart ." % k)
        root = tempfile.mkdtemp(prefix="verif_c10r_")
        try:
            finals = {}
            for name, seq in (("uninterrupted", [[]]), ("restarted", [["--number-of-steps", str(k)], ["--restart", "."]])):
                d = os.path.join(root, name)
                os.makedirs(d)
                with open(os.path.join(d, "blocks.yml"), "w") as f:
                    f.write(setup["blocks"])
                bad = None
                for args in seq:
                    res = simrun.run_sim(binary, param, ["--task-based-rhd"] + args, threads=1, timeout=90, trace=False, workdir=d)
                    ctx.count()
                    if res["timed_out"] or res["rc"] != 0:
                        bad = "%s run (%s) ended with status %s: %s" % (name, " ".join(args) or "to the end", "timeout" if res["timed_out"] else res["rc"], res["log"][-300:])
                        break
                if bad:
                    ctx.violation("restart-twin:run-failed", bad + " (" + tag + ")", rep)
                    finals = None
                    break
                snaps = sorted(f for f in os.listdir(d) if f.startswith("snap") and f.endswith(".hdf5"))
                rc, out, err = vlib.run_exe(SNAP_TOOL[0], "", args=[os.path.join(d, snaps[-1])]) if snaps else (1, "", "")
                finals[name] = (snaps[-1] if snaps else None, out, sum(1 for l in res["log"].split("\n") if "Starting hydro step " in l))
            if not finals:
                continue
            ctx.branch("restart-twins")
            ctx.distinct(("restart-twin", layout, cells, k))
            a, b_ = finals["uninterrupted"], finals["restarted"]
            stream["lines"] += len(a[1].split())
            if a[0] is None or a[0] != b_[0] or a[1] != b_[1]:
                stream["oracle_failures"] += 1
                ndiff = sum(1 for x, y in zip(a[1].split(), b_[1].split()) if x != y)
                ctx.violation("restart-twin:final-snapshot-differs", "one thread, same input: the final snapshot (%s) of the run stopped after step %d and restarted differs from the uninterrupted run in %d values (%s)"
                              % (a[0], k, ndiff, tag), rep)
            else:
                ctx.branch("restart-twin-bit-identical")
        finally:
            shutil.rmtree(root, ignore_errors=True)


def run(ctx):
    ctx.level = "proof"
    ctx.assumptions += [
        "exact real arithmetic in the theorems: sums, minima and maxima over a multiset do not depend on the order; the round-off of the different summation orders is bounded empirically (tolerance below)",
        "the theorems hold for any per-cell slope limiter and half-step prediction (maps that can only write the gradients / the primitives of their own cell) and are instantiated with the models of apply_slope_limiter and predict_primitive_variables (…_code theorems; bit-exact Float correspondence in C04)",
        "schedule_independent / execution_layout_independent: tasks are atomic state transformers (a parallel run is serialised in the order the tasks complete; that concurrently running tasks touch disjoint subgrids and that every task runs exactly once after its parents is C07, the lock discipline behind it C08)",
        "single_thread_deterministic: in the model one thread leaves no scheduling choice (the order is a function of the layout and of the queue discipline, independent of the hydro data); absence of other nondeterminism sources (uninitialised memory, time, addresses) is only tested by the bit comparison of two one-thread runs; that the loop runs all tasks is C07's progress theorem",
    ]
    ok = ctx.obligations("CMacVerif.Props.C10", ["drv_c10", "drv_c04"])
    ctx.cov["tolerance"] = {"relative_per_face": TOL_PER_FACE, "cap": TOL_CAP}
    ctx.assumptions.append("traced runs serialise the release of the children of a finished task (hook mutex); the untraced stress stream (no CMAC_VERIF_TRACE, H1 yield hook with seeded delays, bias between a thread's pre_decrement and its next load) is a search for schedule dependence, not a proof: it compares the final Gadget snapshot written by the code after ~10-20 steps on 4/8/16 threads with the one-thread run")
    ctx.assumptions.append("restart twins (one thread, run to the end vs stop after k steps + --restart, final snapshot bit for bit) extend the one-thread reproducibility claim to a state that went through dump and restore; stop/restart as such is C09's property")
    ctx.cov["rule"] = ("for a random global grid (layout 1..3 subgrids/axis x 2..6 cells, periodic / reflective / mixed, smooth / jump / blast / near-vacuum / random states): one real step with "
                       "the layout on 2/4/8 threads, with the undivided 1x1x1 layout on one thread (sequential sweep), with another factorisation of the same grid, with another thread count, and twice with one thread; "
                       "full state dumps (conserved + primitive variables of every cell, cells identified by their midpoints) compared: layouts and thread counts within 1e-13 x faces, the two one-thread runs bit for bit; "
                       "the per-call logs compared as multisets in global cell terms; plus untraced stress runs: 2x2x2 .. 3x3x2 subgrids of 2^3 cells, non-uniform periodic / reflective states, 10-20 steps, 4/8/16 threads with seeded scheduling jitter at the atomic operations, final snapshot (density, velocity, pressure of every cell) vs the one-thread run within 1e-11; a hang, crash or difference is a violation; distinct = (global grid, layout, periodicity, kind, threads)")
    if not ok:
        return
    binary = vlib.full_binary()
    drv10 = vlib.driver("drv_c10")
    for _ in range(ctx.budget(9, 80)):
        one_case(ctx, binary, drv10, ctx.budget(1200, 3000))
    stress_stream(ctx, binary, 60 if ctx.thorough else 4, 5 if ctx.thorough else 3)
    restart_twins(ctx, binary, 12 if ctx.thorough else 2)


def replay(ctx, path):
    obj = json.load(open(path))
    print(json.dumps({k: v for k, v in obj.items() if k not in ("states",)}, indent=1)[:2500])
    if obj.get("restart_twin"):
        before = len(ctx.violations)
        rng_state = ctx.rng.getstate()
        # re-run exactly this twin
        class _R:
            def __init__(self, o): self.o, self.n = o, 0
            def choice(self, seq):
                self.n += 1
                return {1: tuple(self.o["layout"]), 2: tuple(self.o["cells"]), 3: self.o["g"]}.get(self.n, self.o["k"])
        import os, shutil, tempfile
        binary = vlib.full_binary()
        JITTER_LIB[0] = JITTER_LIB[0] or jitter_lib()
        SNAP_TOOL[0] = SNAP_TOOL[0] or vlib.build_harness("c10_snap")
        root = tempfile.mkdtemp(prefix="verif_c10r_")
        outs = []
        for name, seq in (("uninterrupted", [[]]), ("restarted", [["--number-of-steps", str(obj["k"])], ["--restart", "."]])):
            d = os.path.join(root, name)
            os.makedirs(d)
            open(os.path.join(d, "blocks.yml"), "w").write(obj["blocks"])
            for args in seq:
                res = simrun.run_sim(binary, obj["param"], ["--task-based-rhd"] + args, threads=1, timeout=90, trace=False, workdir=d)
            snaps = sorted(f for f in os.listdir(d) if f.startswith("snap") and f.endswith(".hdf5"))
            outs.append(vlib.run_exe(SNAP_TOOL[0], "", args=[os.path.join(d, snaps[-1])])[1] if snaps else name)
        shutil.rmtree(root, ignore_errors=True)
        nd = sum(1 for x, y in zip(outs[0].split(), outs[1].split()) if x != y)
        print("values of the final snapshot that differ between the uninterrupted and the restarted run: %d" % nd)
        print("REPRODUCED" if outs[0] != outs[1] else "not reproduced")
        return 1 if outs[0] != outs[1] else 0
    if obj.get("stress"):
        binary = vlib.full_binary()
        setup = dict(param=obj["param"], blocks=obj["blocks"], ncell=obj["ncell"], box=obj["box"])
        s1, ref, log1 = stress_run(binary, setup, 1, None)
        s2, st, log2 = stress_run(binary, setup, obj["threads"], obj.get("jitter"))
        print("one thread: %s; %d threads with jitter %s: %s %s" % (s1, obj["threads"], obj.get("jitter"), s2, log2[-200:]))
        bad = ref is None or st is None
        if not bad:
            w, where = stress_compare(ref, st, obj["g"])
            print("worst relative difference %.3e at %r (tolerance %.1e)" % (w, where, STRESS_TOL))
            bad = w > STRESS_TOL
        print("REPRODUCED" if bad else "not reproduced on this run (schedule dependent: repeat, the jitter seed only fixes the delays)")
        return 1 if bad else 0
    if "states" not in obj:
        print("replay file names a broken obligation, not an input")
        return 1
    per, g, box = tuple(obj["per"]), obj["g"], tuple(obj["box"])
    ncell = obj["ncell"]
    states = {tuple(k): (v[0], v[1], v[2]) for k, v in obj["states"]}
    binary = vlib.full_binary()
    runs = [((1, 1, 1), tuple(ncell), 1), (tuple(obj.get("run_layout", obj["layout"])), tuple(obj.get("run_cells", obj["cells"])), obj.get("run_threads", 1))]
    if obj.get("run") == "one-thread":
        runs[0] = runs[1]
    st = []
    sched_bad = []
    for lay, cel, thr in runs:
        res = c04.run_hydro(binary, lay, per, cel, g, states, thr, steps=1, box=box)
        tr = c04.Trace(res["trace"])
        st.append(state_by_cell(tr, 0, 1, ncell, box))
        sched_bad += graph_dependence_violations(tr) + dependence_violations(tr, 0)
    if str(obj.get("key", "")).startswith("schedule:"):
        print("pairs of conflicting tasks not ordered by the task graph / by the observed schedule: %d, e.g. %r" % (len(sched_bad), sched_bad[:2]))
        print("REPRODUCED" if sched_bad else "not reproduced")
        return 1 if sched_bad else 0
    nfaces = sum(c04.python_grid_faces(ncell, per).values())
    tol = min(TOL_PER_FACE * nfaces, TOL_CAP)
    if obj.get("run") == "one-thread":
        bad = st[0][1] != st[1][1]
        print("bit-identical:", not bad)
    else:
        w, where = compare_states(st[0][0], st[1][0], scales(st[0][0], g), tol)
        print("worst relative difference %.3e at %r (tolerance %.1e)" % (w, where, tol))
        bad = w > tol
    print("REPRODUCED" if bad else "not reproduced")
    return 1 if bad else 0


MANIFEST = dict(
    category="proof",
    text="Lean theorems for EVERY pair of subgrid layouts of the same global grid (any number of subgrids and cells per axis, any periodicity): the flux calls and the gradient calls of all sweeps are the same multiset (a permutation of the calls of the plain sequential sweep over the undivided grid); every call of a sweep reads only what no call of that sweep writes and accumulates with + / min / max, so any two calls commute and the cell states after one step are identical for all layouts and equal to the sequential sweep, for any flux function, limiter, prediction, state and dt (exact arithmetic); every linear extension of C07's task graph (= every completion order of the worker loop, any number of threads) gives the same state on every cell, namely that of the phase-by-phase step, because conflicting tasks of different phases are ordered by the graph and all other tasks commute; hence any layout + any schedule = the sequential sweep; with one thread the execution order is a function of layout and queue discipline only. Tied to the code by full state dumps of real steps (layout vs undivided grid vs another layout vs other thread counts, two one-thread runs bit for bit) and by the per-call logs compared as multisets; in addition untraced multi-thread runs under seeded scheduling jitter (the trace hook's mutex would hide races in the child-release loop) are compared with the one-thread run through the snapshot the code writes itself.",
    note="Trusted: Lean kernel + 3 axioms; models shared with C04 (bit-exact cell-level correspondence there) and C07 (task graph tied by table dumps); exact arithmetic (round-off of summation order bounded empirically: 1e-13 x number of faces); task-level atomicity from C07/C08; bit-reproducibility of one-thread runs is tested, the model only shows that no scheduling choice remains.",
    technique="Lean 4 proof (permutation + commutation of accumulating calls, trace-commutation argument over the task graph) + differential runs of the real hooked binary across layouts and thread counts + untraced jittered stress runs (LD_PRELOAD on the H1 yield hook) compared by final snapshot")
