"""C10 — hydro results do not depend on subgrid layout or number of threads (DESIGN §6 C10).

Shares the machinery of C04 (tools/props/c04.py): runs of the real hooked binary, decoding of the
per-call log and of the full state dump (hook H3)."""
import collections
import itertools
import json
import math
import vlib
import simrun
from props import c04

TOL_PER_FACE = 1.e-13     # relative difference between two layouts / thread counts, times the number of faces
TOL_CAP = 1.e-12          # never looser than this (measured worst difference: 2e-16)
FIELDS = ["mass", "px", "py", "pz", "energy", "density", "vx", "vy", "vz", "pressure"]


def factorizations(ncell):
    """all (layout, cells) with layout*cells = ncell per axis, 1..3 subgrids, >= 1 cell"""
    per_axis = []
    for n in ncell:
        per_axis.append([(s, n // s) for s in (1, 2, 3) if n % s == 0])
    return [(tuple(x[0] for x in combo), tuple(x[1] for x in combo)) for combo in itertools.product(*per_axis)]


def state_by_cell(tr, step, phase, ncell, box):
    """{(X,Y,Z): [10 floats]} from the dump, cells identified by their midpoints"""
    d = tr.steps[step]["dump"][phase]
    coords = c04.cell_coords_from_midpoints(d, ncell, box)
    if coords is None:
        return None, None
    out = {}
    bits = {}
    for key, rec in d.items():
        out[coords[key]] = [vlib.bits2f(x) for x in rec[3:13]]
        bits[coords[key]] = rec[3:13]
    return out, bits


def scales(ref, g):
    """one absolute scale per field, from the reference state"""
    mx = lambda j: max(abs(v[j]) for v in ref.values())
    pm = max(math.sqrt(2 * max(v[0], 0) * max(v[4], 0)) for v in ref.values())
    cs = max((abs(v[6]) + abs(v[7]) + abs(v[8]) + (math.sqrt(g * v[9] / v[5]) if v[5] > 0 and v[9] > 0 else 0.0)) for v in ref.values())
    return [mx(0), pm, pm, pm, mx(4), mx(5), cs, cs, cs, mx(9)]


def compare_states(a, b, sc, tol):
    """-> (worst relative difference, (cell, field, va, vb)) over all cells and fields"""
    worst, where = 0.0, None
    if set(a) != set(b):
        return float("inf"), ("cell sets differ", None, None, None)
    for X in a:
        for j in range(10):
            x, y = a[X][j], b[X][j]
            if x == y:
                continue
            if x != x or y != y:
                return float("inf"), (X, FIELDS[j], x, y)
            d = abs(x - y) / sc[j] if sc[j] > 0 else float("inf")
            if d > worst:
                worst, where = d, (X, FIELDS[j], x, y)
    return worst, where


def global_calls(tr, step, kind, ncell, box):
    st = tr.steps[step]
    coords = c04.cell_coords_from_midpoints(st["dump"][0], ncell, box)
    obs, bad = c04.observed_calls(tr, st, kind)
    glob = collections.Counter()
    for c, n in obs.items():
        if c[0] == "p":
            glob[("p", coords[(c[1], c[2])], coords[(c[3], c[4])], c[5])] += n
        else:
            glob[("b", coords[(c[1], c[2])], c[3], c[4])] += n
    return glob


SLOT_PHASE = [0] * 7 + [1, 2] + [3] * 7 + [4, 5]


def dependence_violations(tr, step):
    """the hypothesis of schedule independence on the real schedule: a task of a later phase that touches a
    subgrid must not start before every task of an earlier phase that touches the same subgrid has finished"""
    start, finish = {}, {}
    for pos, (k, t) in enumerate(tr.steps[step]["order"]):
        (start if k == "A" else finish).setdefault(t, pos)
    by_sub = collections.defaultdict(list)
    for t, foot in tr.taskfoot.items():
        for g in foot:
            by_sub[g].append(t)
    bad = []
    for g, ts in by_sub.items():
        for a in ts:
            pa = SLOT_PHASE[tr.tasktype[a][1]]
            for b_ in ts:
                if pa < SLOT_PHASE[tr.tasktype[b_][1]] and a in finish and b_ in start and not finish[a] < start[b_]:
                    bad.append((g, tr.tasktype[a], tr.tasktype[b_]))
    return bad


def graph_dependence_violations(tr):
    """`dependences_ordered_by_graph` on the implementation's own task table: every task of a later phase
    that touches a subgrid must be a descendant (child lists as dumped) of every task of an earlier phase
    that touches the same subgrid"""
    desc = {}

    def descendants(t):
        if t not in desc:
            d = set()
            for ch in tr.children.get(t, []):
                d.add(ch)
                d |= descendants(ch)
            desc[t] = d
        return desc[t]
    by_sub = collections.defaultdict(list)
    for t, foot in tr.taskfoot.items():
        for g in foot:
            by_sub[g].append(t)
    bad = []
    for g, ts in by_sub.items():
        for a in ts:
            pa = SLOT_PHASE[tr.tasktype[a][1]]
            da = descendants(a)
            for b_ in ts:
                if pa < SLOT_PHASE[tr.tasktype[b_][1]] and b_ not in da:
                    bad.append((g, tr.tasktype[a], tr.tasktype[b_]))
    return bad


def one_case(ctx, binary, drv10, max_cells):
    rng = ctx.rng
    while True:
        layout = tuple(rng.choice([1, 2, 2, 3]) for _ in range(3))
        cells = tuple(rng.choice([2, 3, 4, 5, 6]) for _ in range(3))
        ncell = [layout[a] * cells[a] for a in range(3)]
        if ncell[0] * ncell[1] * ncell[2] <= max_cells and layout != (1, 1, 1):
            break
    per = rng.choice(c04.PERS)
    g = rng.choice(c04.GAMMAS[:4])
    kind = rng.choice(["smooth", "jump", "blast", "nearvac", "random", "random", "smooth"])
    box = rng.choice([(1., 1., 1.), (1., 1., 1.), (2., 1., 0.5)])
    states = c04.initial_state(rng, ncell, kind, g, per)
    threads = rng.choice([2, 4, 8])
    others = [f for f in factorizations(ncell) if f[0] != layout and f[0] != (1, 1, 1)]
    runs = [("layout", layout, cells, threads), ("reference 1x1x1 sequential", (1, 1, 1), tuple(ncell), 1),
            ("same layout, one thread", layout, cells, 1), ("same layout, one thread, again", layout, cells, 1)]
    if others:
        l2, c2 = rng.choice(others)
        runs.append(("another layout", l2, c2, rng.choice([1, 2, 4, 8])))
    runs.append(("same layout, other thread count", layout, cells, rng.choice([t for t in (1, 2, 4, 8) if t != threads])))
    cfg = dict(layout=layout, cells=cells, per=per, g=g, kind=kind, box=box, threads=threads, ncell=ncell)
    rep = dict(cfg, states=[[list(k), list(v[:2]) + [list(v[2])]] for k, v in sorted(states.items())])
    tag = "global grid %s periodic %s gamma %.4g %s" % (ncell, per, g, kind)
    results = {}
    for (name, lay, cel, thr) in runs:
        res = c04.run_hydro(binary, lay, per, cel, g, states, thr, steps=1, box=box)
        ctx.count()
        if res["timed_out"] or res["rc"] != 0:
            ctx.violation("run:failed", "hydro run failed (%s, layout %s, %d threads, %s): %s" % (name, lay, thr, tag, res["log"][-300:]), dict(rep, run=name, run_layout=lay, run_cells=cel, run_threads=thr))
            return
        tr = c04.Trace(res["trace"])
        if not tr.steps or not tr.steps[0]["dump"][1]:
            ctx.broken_obligation("no state dump in the trace (hook H3 for C04/C10 missing in this tree?) " + tag, res["log"][-300:])
            return
        st, bits = state_by_cell(tr, 0, 1, ncell, box)
        st0, bits0 = state_by_cell(tr, 0, 0, ncell, box)
        if st is None:
            ctx.broken_obligation("cell midpoints of the dump are not cell centres of the %s grid (%s)" % (ncell, name), "")
            return
        results[name] = dict(state=st, bits=bits, state0=st0, tr=tr, layout=lay, cells=cel, threads=thr)
        gv = graph_dependence_violations(tr)
        if gv:
            g_, ta, tb = gv[0]
            ctx.violation("schedule:dependence-not-in-task-graph", "the constructed task graph does not order task (subgrid %d slot %d) before task (subgrid %d slot %d) although both touch subgrid %d and the second belongs to a later phase (%d such pairs; layout %s periodic %s): their order, hence the result, depends on the schedule"
                          % (ta[0], ta[1], tb[0], tb[1], g_, len(gv), lay, per), dict(rep, run=name, run_layout=lay, run_cells=cel, run_threads=thr))
        dv = dependence_violations(tr, 0)
        ctx.branch("schedules-checked-against-data-dependences")
        if dv:
            g_, ta, tb = dv[0]
            ctx.violation("schedule:data-dependence-violated", "task (subgrid %d slot %d) of a later phase started before task (subgrid %d slot %d), which touches the same subgrid %d, had finished (%d such pairs; layout %s, %d threads, %s)"
                          % (tb[0], tb[1], ta[0], ta[1], g_, len(dv), lay, thr, tag), dict(rep, run=name, run_layout=lay, run_cells=cel, run_threads=thr, trace=[l for l in res["trace"] if l.split()[1] in "AFT"][:3000]))
    ref = results["reference 1x1x1 sequential"]
    nfaces = sum(c04.python_grid_faces(ncell, per).values())
    tol = min(TOL_PER_FACE * nfaces, TOL_CAP)
    sc = scales(ref["state"], g)
    stream = ctx.cov["correspondence_streams"].setdefault("state-dumps", {"lines": 0, "mismatches": 0, "oracle_failures": 0})
    ctx.distinct((tuple(ncell), layout, per, kind, threads))
    ctx.branch("init-" + kind)
    ctx.branch("periodic" if all(per) else "walls")
    # the initial states must be the same state (same input): compare loosely, it is the test set-up
    for name, r in results.items():
        w0, where0 = compare_states(ref["state0"], r["state0"], scales(ref["state0"], g), 1e-12)
        if w0 > 1e-12:
            ctx.broken_obligation("test set-up: initial states of the runs differ by %.2e at %r (%s, %s)" % (w0, where0, name, tag), "")
            return
    worst_all = 0.0
    for name, r in results.items():
        if name == "reference 1x1x1 sequential":
            continue
        w, where = compare_states(ref["state"], r["state"], sc, tol)
        stream["lines"] += len(ref["state"]) * 10
        worst_all = max(worst_all, w)
        if w > tol:
            stream["oracle_failures"] += 1
            key = "layout:state-differs-from-sequential-sweep"
            ctx.violation(key, "after one step cell %r %s = %r with layout %s cells %s (%d threads) but %r in the undivided 1x1x1 grid: relative difference %.3e > %.1e (%s)"
                          % (where[0], where[1], where[3], r["layout"], r["cells"], r["threads"], where[2], w, tol, tag),
                          dict(rep, run=name, run_layout=r["layout"], run_cells=r["cells"], run_threads=r["threads"]))
    # threads: same layout, different thread counts
    a, bq = results["layout"], results["same layout, other thread count"]
    w, where = compare_states(a["state"], bq["state"], sc, tol)
    worst_all = max(worst_all, w)
    if w > tol:
        stream["oracle_failures"] += 1
        ctx.violation("threads:state-differs", "after one step cell %r %s differs between %d and %d threads on the same layout: %r vs %r (relative %.3e > %.1e, %s)"
                      % (where[0], where[1], a["threads"], bq["threads"], where[2], where[3], w, tol, tag),
                      dict(rep, run="threads", run_layout=layout, run_cells=cells, run_threads=bq["threads"]))
    # one thread twice: bit for bit
    r1, r2 = results["same layout, one thread"], results["same layout, one thread, again"]
    nb = sum(1 for X in r1["bits"] if r1["bits"][X] != r2["bits"].get(X))
    ctx.branch("one-thread-pairs")
    if nb:
        stream["oracle_failures"] += 1
        X = [X for X in r1["bits"] if r1["bits"][X] != r2["bits"].get(X)][0]
        ctx.violation("onethread:not-bit-identical", "two runs with one thread of the same input differ in %d cells, e.g. cell %r: %r vs %r (%s)" % (nb, X, r1["state"][X], r2["state"][X], tag),
                      dict(rep, run="one-thread", run_layout=layout, run_cells=cells, run_threads=1))
    else:
        ctx.branch("one-thread-bit-identical")
    # the calls themselves: same multiset in global cell terms for every layout (implementation level)
    for kindc in ("f", "g"):
        gref = global_calls(ref["tr"], 0, kindc, ncell, box)
        for name, r in results.items():
            if name.startswith("same layout, one thread, again") or name == "reference 1x1x1 sequential":
                continue
            gl = global_calls(r["tr"], 0, kindc, ncell, box)
            stream["lines"] += sum(gref.values())
            if gl != gref:
                stream["oracle_failures"] += 1
                ctx.violation("layout:call-multiset-differs", "the %s calls of layout %s cells %s are not the calls of the undivided grid: only there %r, only here %r (%s)"
                              % ("flux" if kindc == "f" else "gradient", r["layout"], r["cells"], list((gref - gl).items())[:3], list((gl - gref).items())[:3], tag),
                              dict(rep, run=name, run_layout=r["layout"], run_cells=r["cells"], run_threads=r["threads"]))
    ctx.cov["worst_relative_state_difference"] = max(ctx.cov.get("worst_relative_state_difference", 0.0), worst_all)
    # the Lean statement instantiated on these layouts (executable instance of the theorems)
    ops = []
    head = lambda lay, cel: "%d %d %d %d %d %d %d %d %d" % (lay + tuple(int(p) for p in per) + cel)
    for name, r in results.items():
        ops.append("same %s %s" % (head(layout, cells), head(r["layout"], r["cells"])))
        ops.append("seq %s" % head(r["layout"], r["cells"]))
    rc, out, err = vlib.run_exe(drv10, "\n".join(ops) + "\n")
    lines = [l for l in out.split("\n") if l]
    st2 = ctx.cov["correspondence_streams"].setdefault("lean-instances", {"lines": 0, "mismatches": 0})
    for op, l in zip(ops, lines):
        st2["lines"] += 1
        w = l.split()
        okl = (w[:4] == ["G", "1", "P", "1"]) if op.startswith("same") else (w[:2] == ["P", "1"])
        n_impl = sum(c04.python_grid_faces(ncell, per).values())
        if not okl or int(w[-1]) != n_impl:
            st2["mismatches"] += 1
            ctx.broken_obligation("Lean model: %r gives %r (expected a permutation of %d calls)" % (op, l, n_impl), "")
    if len(ctx.cov["samples"]) < 4:
        ctx.sample({"global_grid": ncell, "layout": layout, "cells": cells, "periodic": per, "kind": kind, "threads": threads, "faces": nfaces,
                    "worst_relative_difference_to_sequential": worst_all, "tolerance": tol})


def run(ctx):
    ctx.level = "proof"
    ctx.assumptions += [
        "exact real arithmetic in the theorems: sums, minima and maxima over a multiset do not depend on the order; the round-off of the different summation orders is bounded empirically (tolerance below)",
        "the theorems hold for any per-cell slope limiter and half-step prediction (maps that can only write the gradients / the primitives of their own cell) and are instantiated with the models of apply_slope_limiter and predict_primitive_variables (…_code theorems; bit-exact Float correspondence in C04)",
        "schedule_independent / execution_layout_independent: tasks are atomic state transformers (a parallel run is serialised in the order the tasks complete; that concurrently running tasks touch disjoint subgrids and that every task runs exactly once after its parents is C07, the lock discipline behind it C08)",
        "single_thread_deterministic: in the model one thread leaves no scheduling choice (the order is a function of the layout and of the queue discipline, independent of the hydro data); absence of other nondeterminism sources (uninitialised memory, time, addresses) is only tested by the bit comparison of two one-thread runs; that the loop runs all tasks is C07's progress theorem",
    ]
    ok = ctx.obligations("CMacVerif.Props.C10", ["drv_c10", "drv_c04"])
    ctx.cov["tolerance"] = {"relative_per_face": TOL_PER_FACE, "cap": TOL_CAP}
    ctx.cov["rule"] = ("for a random global grid (layout 1..3 subgrids/axis x 2..6 cells, periodic / reflective / mixed, smooth / jump / blast / near-vacuum / random states): one real step with "
                       "the layout on 2/4/8 threads, with the undivided 1x1x1 layout on one thread (sequential sweep), with another factorisation of the same grid, with another thread count, and twice with one thread; "
                       "full state dumps (conserved + primitive variables of every cell, cells identified by their midpoints) compared: layouts and thread counts within 1e-13 x faces, the two one-thread runs bit for bit; "
                       "the per-call logs compared as multisets in global cell terms; distinct = (global grid, layout, periodicity, kind, threads)")
    if not ok:
        return
    binary = vlib.full_binary()
    drv10 = vlib.driver("drv_c10")
    for _ in range(ctx.budget(9, 80)):
        one_case(ctx, binary, drv10, ctx.budget(1200, 3000))


def replay(ctx, path):
    obj = json.load(open(path))
    print(json.dumps({k: v for k, v in obj.items() if k not in ("states",)}, indent=1)[:2500])
    if "states" not in obj:
        print("replay file names a broken obligation, not an input")
        return 1
    per, g, box = tuple(obj["per"]), obj["g"], tuple(obj["box"])
    ncell = obj["ncell"]
    states = {tuple(k): (v[0], v[1], v[2]) for k, v in obj["states"]}
    binary = vlib.full_binary()
    runs = [((1, 1, 1), tuple(ncell), 1), (tuple(obj.get("run_layout", obj["layout"])), tuple(obj.get("run_cells", obj["cells"])), obj.get("run_threads", 1))]
    if obj.get("run") == "one-thread":
        runs[0] = runs[1]
    st = []
    sched_bad = []
    for lay, cel, thr in runs:
        res = c04.run_hydro(binary, lay, per, cel, g, states, thr, steps=1, box=box)
        tr = c04.Trace(res["trace"])
        st.append(state_by_cell(tr, 0, 1, ncell, box))
        sched_bad += graph_dependence_violations(tr) + dependence_violations(tr, 0)
    if str(obj.get("key", "")).startswith("schedule:"):
        print("pairs of conflicting tasks not ordered by the task graph / by the observed schedule: %d, e.g. %r" % (len(sched_bad), sched_bad[:2]))
        print("REPRODUCED" if sched_bad else "not reproduced")
        return 1 if sched_bad else 0
    nfaces = sum(c04.python_grid_faces(ncell, per).values())
    tol = min(TOL_PER_FACE * nfaces, TOL_CAP)
    if obj.get("run") == "one-thread":
        bad = st[0][1] != st[1][1]
        print("bit-identical:", not bad)
    else:
        w, where = compare_states(st[0][0], st[1][0], scales(st[0][0], g), tol)
        print("worst relative difference %.3e at %r (tolerance %.1e)" % (w, where, tol))
        bad = w > tol
    print("REPRODUCED" if bad else "not reproduced")
    return 1 if bad else 0


MANIFEST = dict(
    category="proof",
    text="Lean theorems for EVERY pair of subgrid layouts of the same global grid (any number of subgrids and cells per axis, any periodicity): the flux calls and the gradient calls of all sweeps are the same multiset (a permutation of the calls of the plain sequential sweep over the undivided grid); every call of a sweep reads only what no call of that sweep writes and accumulates with + / min / max, so any two calls commute and the cell states after one step are identical for all layouts and equal to the sequential sweep, for any flux function, limiter, prediction, state and dt (exact arithmetic); every linear extension of C07's task graph (= every completion order of the worker loop, any number of threads) gives the same state on every cell, namely that of the phase-by-phase step, because conflicting tasks of different phases are ordered by the graph and all other tasks commute; hence any layout + any schedule = the sequential sweep; with one thread the execution order is a function of layout and queue discipline only. Tied to the code by full state dumps of real steps (layout vs undivided grid vs another layout vs other thread counts, two one-thread runs bit for bit) and by the per-call logs compared as multisets.",
    note="Trusted: Lean kernel + 3 axioms; models shared with C04 (bit-exact cell-level correspondence there) and C07 (task graph tied by table dumps); exact arithmetic (round-off of summation order bounded empirically: 1e-13 x number of faces); task-level atomicity from C07/C08; bit-reproducibility of one-thread runs is tested, the model only shows that no scheduling choice remains.",
    technique="Lean 4 proof (permutation + commutation of accumulating calls, trace-commutation argument over the task graph) + differential runs of the real hooked binary across layouts and thread counts")
