"""C11 — the exact Riemann solver returns the solution of the Riemann problem (DESIGN §6 C11)."""
import json
import math
import os
import vlib

REL_TOL = 1.e-9
B = vlib.f2bits
F = vlib.bits2f

# every branch of the model (Sol.br of Model/ExactRiemann.lean + guess / root-finder paths)
SAMPLE_BRANCHES = {
    1: "R-shock:star", 2: "R-shock:right-state", 3: "R-raref:right-state", 4: "R-raref:star", 5: "R-raref:fan",
    6: "L-shock:star", 7: "L-shock:left-state", 8: "L-raref:left-state", 9: "L-raref:fan", 10: "L-raref:star",
    23: "infinite-f:vacuum",
    # vacuum regimes: tags of Model/RiemannVacuum.lean (C05) + 100
    101: "vacuum:both", 111: "R-vacuum:left-state", 112: "R-vacuum:fan", 113: "R-vacuum:vacuum",
    121: "L-vacuum:right-state", 122: "L-vacuum:fan", 123: "L-vacuum:vacuum",
    131: "vacuum-generation:vacuum", 132: "vacuum-generation:R-fan", 133: "vacuum-generation:R-state",
    134: "vacuum-generation:L-fan", 135: "vacuum-generation:L-state",
}
# branches that return one of the two unperturbed input states (trivial cases)
TRIVIAL = (2, 3, 7, 8, 111, 121, 133, 135)
REQUIRED = (["sample:" + v for k, v in SAMPLE_BRANCHES.items()]
            + ["guess1", "guess2", "guess3", "guess4", "path1", "path2", "fb-shock", "fb-rarefaction", "brent-error"])


def nxt(x, k):
    for _ in range(abs(k)):
        x = math.nextafter(x, math.inf if k > 0 else -math.inf)
    return x


def gen_gamma(rng):
    r = rng.random()
    if r < 0.45:
        return rng.choice([1.4, 5. / 3., 2.0, 1.1, 7. / 5., 4. / 3.])
    if r < 0.9:
        return rng.uniform(1.02, 2.0)
    if r < 0.97:
        return rng.choice([1.01, 1.001, 1.02])
    return rng.choice([1.0, 1.000000001, 1.00000001, 1.0000001])


def logu(rng, lo=-3., hi=3.):
    return 10. ** rng.uniform(lo, hi)


def gen_state_pair(rng):
    """(gamma, rhoL, uL, PL, rhoR, uR, PR, kind): densities and pressures over 6 decades, velocity
    differences from strong compression up to and beyond vacuum generation, exact zeros."""
    g = gen_gamma(rng)
    ge = max(g, 1.00000001)
    kind = rng.choice(["generic"] * 6 + ["same", "near-same", "vacL", "vacR", "vacLR", "toro"])
    if kind == "toro":
        t = rng.choice([(1.0, 0.0, 1.0, 0.125, 0.0, 0.1), (1.0, -2.0, 0.4, 1.0, 2.0, 0.4),
                        (1.0, 0.0, 1000.0, 1.0, 0.0, 0.01), (1.0, 0.0, 0.01, 1.0, 0.0, 100.0),
                        (5.99924, 19.5975, 460.894, 5.99242, -6.19633, 46.0950)])
        return (1.4,) + t + (kind,)
    rhoL, PL, rhoR, PR = logu(rng), logu(rng), logu(rng), logu(rng)
    if kind == "same":
        rhoR, PR = rhoL, PL
    elif kind == "near-same":
        rhoR, PR = rhoL * (1 + rng.choice([1e-15, 1e-12, 1e-9, 1e-6, 1e-3]) * rng.choice([-1, 1])), \
            PL * (1 + rng.choice([0, 1e-15, 1e-12, 1e-9, 1e-6, 1e-3]) * rng.choice([-1, 1]))
    if rng.random() < 0.15:      # ratio exactly 2 / just around the qmax <= 2 test of guess_P
        PR = PL * rng.choice([2.0, 0.5, nxt(2.0, 1), nxt(2.0, -1)])
    aL, aR = math.sqrt(ge * PL / rhoL), math.sqrt(ge * PR / rhoR)
    T = 2. * (aL + aR) / (ge - 1.)             # vacuum generation threshold of u_R - u_L
    r = rng.random()
    if kind in ("same", "near-same") and rng.random() < 0.5:
        ud = rng.choice([0.0, 1e-12 * aL, -1e-12 * aL, 1e-6 * aL])
    elif r < 0.25:
        ud = -rng.uniform(0, 1) * 10 ** rng.uniform(-2, 1.5) * (aL + aR)     # compression: two shocks
    elif r < 0.55:
        ud = rng.uniform(-1, 1) * (aL + aR) * rng.random()                    # around zero
    elif r < 0.75:
        ud = T * rng.uniform(0.05, 0.999)                                      # strong double rarefaction
    elif r < 0.85:
        ud = T * (1 + rng.choice([-1, 1]) * rng.choice([0, 1e-15, 1e-13, 1e-11, 1e-9, 1e-6]))  # at the threshold
    else:
        ud = T * rng.uniform(1.0, 3.0)                                         # vacuum generation
    u0 = rng.choice([0.0, 0.0, rng.uniform(-3, 3) * (aL + aR), rng.uniform(-1, 1) * 100 * (aL + aR)])
    uL, uR = u0 - 0.5 * ud, u0 + 0.5 * ud
    if kind == "vacL" or kind == "vacLR":
        if rng.random() < 0.5:
            rhoL = 0.0
        else:
            PL = 0.0
        if rng.random() < 0.2:
            rhoL = PL = 0.0
    if kind == "vacR" or kind == "vacLR":
        if rng.random() < 0.5:
            rhoR = 0.0
        else:
            PR = 0.0
        if rng.random() < 0.2:
            rhoR = PR = 0.0
    if kind.startswith("vac"):
        uL, uR = rng.uniform(-3, 3), rng.uniform(-3, 3)
    return (g, rhoL, uL, PL, rhoR, uR, PR, kind)


def xi_list(rng, speeds, scale, nrand):
    """sampling speeds: exact ties with every wave speed, +-1,2 ulp, within 1e-9 / 1e-12 / 1e-6
    (relative and of the velocity scale) on both sides, mid points, far outside, zero, random"""
    out = []
    for w in speeds:
        out.append(w)
        for k in (1, 2, -1, -2):
            out.append(nxt(w, k))
        for r in (1e-9, 3e-10, 1e-12, 1e-6):
            out += [w * (1 + r), w * (1 - r), w + r * scale, w - r * scale]
    s = sorted(set(speeds))
    for a, b in zip(s, s[1:]):
        out += [0.5 * (a + b), a + (b - a) * rng.random(), a + (b - a) * rng.random()]
    lo = (s[0] if s else 0.0) - scale
    hi = (s[-1] if s else 0.0) + scale
    out += [lo, hi, lo - 10 * scale, hi + 10 * scale, 0.0, -0.0]
    for _ in range(nrand):
        out.append(rng.uniform(lo, hi))
    seen, res = set(), []
    for x in out:
        if math.isfinite(x):
            b = B(x)
            if b not in seen:
                seen.add(b)
                res.append(x)
    return res


def state_words(st):
    return " ".join(str(B(v)) for v in st[:7])


def unit_ops(rng, n):
    ops = []
    for g in [1.4, 5. / 3., 2.0, 1.0, 1.00000001, 1.000000009, 1.1, 0.999999999 + 1e-9]:
        ops.append("consts %d" % B(g))
    for _ in range(n):
        ops.append("consts %d" % B(gen_gamma(rng)))
    for _ in range(n * 4):
        g, rho, P = gen_gamma(rng), logu(rng), logu(rng)
        k = rng.random()
        if k < 0.25:
            p = P * rng.choice([1.0, nxt(1.0, 1), nxt(1.0, -1), 1 + 1e-9, 1 - 1e-9])
        elif k < 0.3:
            p = 0.0
        elif k < 0.65:
            p = P * 10 ** rng.uniform(0, 6)
        else:
            p = P * 10 ** rng.uniform(-8, 0)
        ops.append("fb %d %d %d %d" % (B(g), B(rho), B(P), B(p)))
    for _ in range(n * 4):
        st = gen_state_pair(rng)
        if st[1] > 0 and st[3] > 0 and st[4] > 0 and st[6] > 0:
            ops.append("guess " + state_words(st))
    # the two-shock guess with an infinite g (outside the 6-decade domain; branch coverage only)
    ops.append("guess %s" % " ".join(str(B(v)) for v in (1.4, 1e-300, 0.0, 1e-10, 1e-300, 0.0, 1e-9)))
    for _ in range(n * 2):
        st = gen_state_pair(rng)
        if not (st[1] > 0 and st[3] > 0 and st[4] > 0 and st[6] > 0):
            continue
        pm = max(st[3], st[6])
        k = rng.random()
        lo = rng.choice([0.0, 0.0, pm * 10 ** rng.uniform(-9, -1)])
        hi = pm * 10 ** rng.uniform(-2, 5)
        if k < 0.15:
            lo, hi = hi, lo          # reversed bracket
        ops.append("brent %s %d %d" % (state_words(st), B(lo), B(hi)))
    return ops


def parse_waves(line):
    """driver answer of a `waves` op -> (regime, list of wave speeds)"""
    w = vlib.strip_branch(line).split()
    if not w or w[0] != "waves":
        return None, []
    reg = int(w[1])
    speeds = []
    for t in w[4:]:
        if t.isdigit():
            x = F(t)
            if math.isfinite(x):
                speeds.append(x)
    return reg, speeds


def cls(words, op_words):
    """coarse branch id computable on BOTH outputs: vacuum flag, 'output is bit-identical to the
    left/right input state', otherwise inside the wave structure on that side"""
    flag = words[0]
    if flag == "0":
        return "vac"
    if words[1:4] == [op_words[2], op_words[3], op_words[4]]:
        return "eqL"
    if words[1:4] == [op_words[5], op_words[6], op_words[7]]:
        return "eqR"
    return "w" + flag


class Stats:
    def __init__(self):
        self.n = 0
        self.bitexact = 0
        self.maxrel = 0.0


def make_cmp(stats):
    def relerr(a, b):
        if a == b:
            return 0.0
        if a == "nan" or b == "nan":
            return math.inf
        x, y = F(a), F(b)
        if x == y:
            return 0.0
        d = abs(x - y)
        m = max(abs(x), abs(y))
        return d / m if m > 0 and math.isfinite(d) else math.inf

    def cmp(a, b, op):
        b = vlib.strip_branch(b)
        stats.n += 1
        if a == b:
            stats.bitexact += 1
            return True
        wa, wb, wo = a.split(), b.split(), op.split()
        if len(wa) != len(wb):
            return False
        if wo[0] in ("solve", "solvex"):
            if wa[0] != wb[0] or len(wa) != 4:
                return False
            if cls(wa, wo) != cls(wb, wo):
                return False
            vals = list(zip(wa[1:], wb[1:]))
        else:
            if wa[0] != wb[0]:
                return False
            vals = list(zip(wa[1:], wb[1:]))
        worst = 0.0
        for x, y in vals:
            if not (x.isdigit() or x == "nan") or not (y.isdigit() or y == "nan"):
                if x != y:
                    return False
                continue
            worst = max(worst, relerr(x, y))
        stats.maxrel = max(stats.maxrel, worst)
        return worst <= REL_TOL
    return cmp


def oracle_key(what, grp):
    return "riemann:" + what.split("(")[0].split()[0]


def run(ctx):
    ctx.level = "proof"
    ctx.assumptions += [
        "theorems are about exact real arithmetic (Real.sqrt, Real.rpow); IEEE rounding, libm and the compiler are not modelled: the tie is the Float instantiation of the same Lean definitions agreeing with the C++ within rel 1e-9 on the generated inputs",
        "convergence of the Newton and Brent iterations in doubles is NOT a theorem: brent_bracket gives a root of the real pressure function inside the final interval and the stated accuracy only when the loop leaves through its tolerance test (or f(b) = 0); leaving through the 1e4 counter gives only the final interval",
        "premises of pstar_accurate_partial (Newton loop terminated; Brent did not use up its 1e4 iterations unless the star pressure underflows) are evaluated on the model for every iterative case of the run: coverage.premises_pstar_accurate",
        "the model's Newton loop has a fuel argument (100000) that the C++ while loop does not have; the driver reports if it ever runs out (never observed)",
        "domain hypotheses of the theorems: rho, P > 0, gamma > 1 (the constructor clamps gamma to >= 1.00000001), no vacuum generation; std::isinf tests are false at the reals",
        "the __float128 reference solver in harness/c11.cpp (written from Toro ch. 4) is a search oracle for violations, not part of the proof; its tolerances scale with 1 + 2/(gamma-1); next to a wave (within 1e-7 of the velocity scale) the sample must lie in the envelope of the reference solution; samples that are numerically vacuum on both sides are accepted whatever the flag",
        "known finding riemann:star-pressure-underflow (known_findings.txt): exact star pressure below the smallest double (gamma < ~1.1, velocity difference within a few % of the vacuum-generation threshold); the oracle reports it under that key only when the reference p* < 1e-300 min(P_L,P_R)",
        "the vacuum branches of solve are the definitions of Model/RiemannVacuum.lean (property C05) imported into this model; std::isinf(1/x) is modelled there by the threshold |x| <= 2^-1024",
    ]
    ok = ctx.obligations("CMacVerif.Props.C11", ["drv_c11"])
    drv = vlib.driver("drv_c11")
    if not os.path.exists(drv):
        return
    h = vlib.build_harness("c11", libs=["-lquadmath"])
    stats = Stats()
    cmp = make_cmp(stats)
    rng = ctx.rng
    ctx.cov["tolerance"] = "flag and coarse branch id identical; rho,u,P and unit-function values rel %g" % REL_TOL

    # ---- corpus + unit-level stream: constants, fb/fprimeb/gb, guess_P, solve_brent
    uops = vlib.corpus_ops("C11") + unit_ops(rng, ctx.budget(150, 4000))
    n, impl, model, orc = ctx.correspond("units", h, drv, uops, cmp=cmp, oracle_key=oracle_key)
    for op, ml in zip(uops, model):
        ctx.count()
        ctx.distinct(op, nontrivial=not op.startswith("consts"))
        if " #" in ml:
            tag = ml.split(" #")[1].split()[0]
            ctx.branch(tag)
            if op.startswith("solve"):
                count_solve_tags(ctx, ml)
    ctx.sample({"op": uops[-1], "impl": impl[-1] if impl else None, "model": model[-1] if model else None})

    # ---- phase 1: wave speeds of every generated Riemann problem (Float model)
    nstates = ctx.budget(4000, 30000)
    states = [gen_state_pair(rng) for _ in range(nstates)]
    wops = ["waves " + state_words(st) for st in states]
    rc, out, err = vlib.run_exe(drv, "\n".join(wops) + "\n")
    wl = [l for l in out.split("\n") if l]
    if rc != 0 or len(wl) != len(wops):
        ctx.broken_obligation("Lean driver drv_c11 failed on the waves ops (rc %d): %s" % (rc, err[-300:]))
        return
    # ---- phase 2: sampling
    sops = []
    for st, l in zip(states, wl):
        reg, speeds = parse_waves(l)
        ctx.branch("regime%s" % reg)
        g = max(st[0], 1.00000001)
        scale = max(abs(st[2]), abs(st[5]),
                    math.sqrt(g * st[3] / st[1]) if st[1] > 0 and st[3] > 0 else 0.0,
                    math.sqrt(g * st[6] / st[4]) if st[4] > 0 and st[6] > 0 else 0.0, 1e-300)
        xs = xi_list(rng, speeds, scale, 4)
        if not ctx.thorough and len(xs) > 60:
            keep = xs[:]
            rng.shuffle(keep)
            xs = keep[:60]
        sw = state_words(st)
        for x in xs:
            sops.append("solve %s %d" % (sw, B(x)))
    # out-of-domain extremes: branch coverage of the isinf tests only (no reference oracle)
    for st in [(1.4, 1e-300, 0.0, 1e-10, 1e-300, 0.0, 1e-9), (1.4, 1e-300, 0.0, 1e-10, 1e-300, -1e140, 1e-9),
               (1.4, 1e-200, 0.0, 1e100, 1e-200, 0.0, 1e90),
               # infinite fL / fR (line 977): found by a random search over the whole double range
               (5. / 3., 1.2358923164859805e-245, 0.0, 2.8951684437799885e-87, 2.937818258934973e+186, 0.0, 1.18593546552695e-297),
               (2.0, 1.1395073381122022e+267, 0.0, 3.1020054114001474e-279, 1.3290860621976024e-81, 0.0, 5.550874646621625e-234),
               (1.1, 1.4677138285596736e-227, 0.0, 6.189650465758506e-247, 3.0395925428588043e+104, 0.0, 9.71952989936646e-257)]:
        for x in (0.0, 1.0, -1.0):
            sops.append("solvex %s %d" % (state_words(st), B(x)))
    n, impl, model, orc = ctx.correspond("solve", h, drv, sops, cmp=cmp, oracle_key=oracle_key)
    nprint = 0
    prem = {"cases": 0, "brent_budget_exceeded": 0, "brent_budget_exceeded_underflow": 0}
    for op, ml, il in zip(sops, model, impl):
        ctx.count()
        br = count_solve_tags(ctx, ml)
        ctx.distinct(op, nontrivial=br not in TRIVIAL)
        if "FUEL-OUT" in ml or "BRENT-ERROR" in ml:
            ctx.broken_obligation("model left its domain on %r: %s" % (op, ml))
        # premises of pstar_accurate_partial, evaluated on every iterative case: the Newton loop
        # terminated (checked above) and Brent's method did not use up its 1e4 iterations -
        # except where the star pressure underflows (known finding riemann:star-pressure-underflow)
        if " path" in ml and op.startswith("solve "):
            prem["cases"] += 1
            if "brent-fuel-out" in ml:
                w = op.split()
                ps = [x for x in ml.split() if x.startswith("pstar=")]
                pv = F(ps[0][6:]) if ps and ps[0][6:].isdigit() else float("nan")
                if pv > 1e-290 * min(F(w[4]), F(w[7])):
                    prem["brent_budget_exceeded"] += 1
                    if prem["brent_budget_exceeded"] == 1:
                        ctx.broken_obligation("premise of pstar_accurate_partial fails on the model: Brent's method used all 1e4 iterations with a representable star pressure on %r: %s" % (op, ml))
                else:
                    prem["brent_budget_exceeded_underflow"] += 1
        if nprint < 4 and br in (1, 5, 9, 112):
            w = op.split()
            ctx.sample({"gamma": F(w[1]), "L": [F(x) for x in w[2:5]], "R": [F(x) for x in w[5:8]],
                        "dxdt": F(w[8]), "impl": il, "model": ml})
            nprint += 1
    ctx.cov["premises_pstar_accurate"] = prem
    ctx.cov["bit_exact_rate"] = round(stats.bitexact / stats.n, 6) if stats.n else None
    ctx.cov["compared_lines"] = stats.n
    ctx.cov["max_rel_diff_not_bit_exact"] = stats.maxrel
    ctx.cov["rule"] = ("Riemann problems: gamma in {1.4,5/3,2,4/3,1.1} U (1.02,2] U {1.02,1.01,1.001} U clamp region; rho,P log-uniform over 1e-3..1e3 "
                       "(+ identical / nearly identical states, pressure ratio exactly 2, exact zeros = vacuum states, Toro's five tests); "
                       "u_R-u_L from strong compression to 3x the vacuum-generation threshold incl. the threshold +-1e-15..1e-6; "
                       "sampling speeds: every wave speed of the Float model exactly (ties), +-1,2 ulp, +-1e-12,3e-10,1e-9,1e-6 relative and of the velocity scale, "
                       "mid points, far field, 0, random; plus unit-level ops on constants, fb/fprimeb/gb, guess_P, solve_brent. "
                       "distinct = different op text; non-trivial = the sample is not one of the two unperturbed input states")
    missing = [b for b in REQUIRED if b not in ctx.cov["branch_histogram"]]
    ctx.cov["branches_never_taken"] = missing
    if missing and ctx.thorough:
        ctx.notes.append("coverage gate: model branches never taken: %s (insufficient evidence, not a violation)" % missing)


def count_solve_tags(ctx, ml):
    br = 0
    if " #" in ml:
        for t in ml.split(" #")[1].split():
            if t.startswith("br") and t[2:].isdigit():
                br = int(t[2:])
                ctx.branch("sample:" + SAMPLE_BRANCHES.get(br, str(br)))
            elif t.startswith("guess") or t.startswith("path") or t == "brent-fuel-out":
                ctx.branch(t)
    return br


def replay(ctx, path):
    return vlib.generic_replay(ctx, path, "c11", "drv_c11", cmp=make_cmp(Stats()), harness_kw={"libs": ["-lquadmath"]})


MANIFEST = dict(
    category="proof",
    text="Lean theorems (exact reals, every gamma: the constructor's clamp gives gamma > 1; all rho,P > 0, all velocities, all sampling speeds) about the SAME definitions that run as the Float driver: "
         "pressure function strictly increasing and continuous on p >= 0, shock and rarefaction branch agree at p = P (fb_strictMono, fb_continuous_branches_agree, f_strictMono_continuous: at most one root; f(0) < 0 iff no vacuum generation); "
         "brent_bracket: for every function, bracket and iteration count the Brent loop keeps the sign change inside the initial bracket, ends with fuel = 0 or f(b) = 0 or |a-b| <= 5e-9(a+b), and (IVT) a root lies between a and the returned b; "
         "solve_brent_root / star_brent_root: solve never reaches the cmac_error of solve_brent, hands Brent a bracket in p >= 0 with f(lo) < 0 < f(hi); ustar_identity; shock_RH_right/left (mass, momentum, energy across the sampled shock with the sampled speed); "
         "rarefaction_isentropic, fan_right/fan_left (sound speed a*base, Riemann invariant, u +- a = xi), fan_right_base_pos, rarefaction_invariant_star; sample_continuous_at_head_tail and continuity in the sampling speed of the whole rarefaction sampler (sample_*_rarefaction_continuous), contact_continuous; "
         "vacuum_joins_fan / vacuum_generation_joins_fans on the vacuum samplers of Model/RiemannVacuum.lean. f_concave_fprime_slope: f is concave with the CODED derivative fprime as slope of a supporting line (tangent inequality across the shock/rarefaction switch), fprime > 0, p*fprime(p) non-decreasing; newton_exit_accurate: when the last Newton iterate is returned it is never above the root and at most 1.1e-16 (relative) below it; ustar_defect (u* = u_R + f_R - f(p*)/2 for every p*); star_feeds_samplers (the hypotheses of the sampling theorems follow from f(p*) = 0 for the data solve passes on); solve_iterative_iff / sampleStar_real (over the reals solve takes its iterative part exactly for non-vacuum states without vacuum generation and is then sampleStar(star), the functions the theorems are about); identical_states_exact (p* = P, u* = u exactly); pressure_root_exists_unique. "
         "PARTIAL (named *_partial): pstar_accurate_partial: on BOTH paths p* is within 1.00000001e-8 (relative) of THE root, under two premises that are evaluated on every correspondence case (Newton loop terminated; Brent's method, if used, did not exhaust its 1e4 iterations) - a bound on the number of Brent iterations is not proved. "
         "Tie: Float instantiation vs the real ExactRiemannSolver (constants, fb/fprimeb/gb, guess_P, solve_brent incl. its error exit, solve) on generated inputs incl. exact ties with every wave speed; flag and coarse branch identical, values rel 1e-9 (measured: bit-identical). "
         "Search oracle on the implementation: independent __float128 reference solver from Toro ch.4 (reference sample, pressure-equation residual, Rankine-Hugoniot, isentropy, invariants, characteristic).",
    note="Trusted: Lean kernel + 3 standard axioms; hand model of ExactRiemannSolver.hpp (lines 81-600, 866-1002) and C05's model of the vacuum samplers; exact-real arithmetic (rounding, libm not modelled; std::isinf false at the reals); "
         "NOT proved: termination of the Newton loop and that Brent's method needs at most 1e4 iterations (checked premises, see coverage.premises_pstar_accurate), anything about rounding; the model's Newton loop has a fuel (100000) the C++ loop lacks. "
         "The oracle found two genuine defects: NaN at the vacuum front (fixed in /repo 52f78a3) and star-pressure underflow for gamma close to 1 (recorded finding riemann:star-pressure-underflow).",
    technique="Lean 4 proof (Mathlib real analysis: rpow, sqrt, IVT) over a generic-arithmetic model + bit-level differential correspondence of its Float instance + __float128 reference solver as violation search")
