"""C05 — Riemann fluxes respect the symmetries of the Euler equations (DESIGN §6 C05)."""
import math
import os
import vlib

TOL = 1.e-10          # model vs implementation, relative to the flux scale of the input
GAMMAS = [5. / 3., 1.4, 2.0, 4. / 3., 1.1]
HLLC_BASE = [0, 11, 12, 13, 21, 22, 23, 31, 32, 33, 34, 35, 41, 42, 43, 44]
SAMPLER_TAGS = [1, 11, 12, 13, 21, 22, 23, 31, 32, 33, 34, 35]
# 50 + sampling branch of the iterative path (C11's ids 1..10: shock/rarefaction star, state, fan on either side)
EXACT_TAGS = list(range(51, 61))
# around the reciprocal-overflow threshold 2^-1024 of std::isinf(1/x)
SUBNORMALS = [2.0 ** -1024, 2.0 ** -1024 + 2.0 ** -1074, 2.0 ** -1024 - 2.0 ** -1074, 2.0 ** -1025, 2.0 ** -1026,
              2.0 ** -1028, 2.0 ** -1030, 2.0 ** -1023, 2.0 ** -1022, 3 * 2.0 ** -1024, 3 * 2.0 ** -1026, 5e-324]


# ------------------------------------------------------------------ small vector helpers
def dot(a, b):
    return a[0] * b[0] + a[1] * b[1] + a[2] * b[2]


def norm(a):
    return math.sqrt(dot(a, a))


def unit(rng):
    while True:
        v = [rng.gauss(0, 1) for _ in range(3)]
        n = norm(v)
        if n > 1e-3:
            v = [x / n for x in v]
            n2 = norm(v)
            return [x / n2 for x in v]


def axis(rng):
    v = [0.0, 0.0, 0.0]
    v[rng.randrange(3)] = rng.choice([1.0, -1.0])
    return v


def tangent(rng, n, mag):
    t = [rng.gauss(0, 1) for _ in range(3)]
    d = dot(t, n)
    t = [t[i] - d * n[i] for i in range(3)]
    return [x * mag for x in t]


def logu(rng, lo=-10, hi=10):
    return 10.0 ** rng.uniform(lo, hi)


def sound(g, rho, P):
    g = max(g, 1.00000001)
    return math.sqrt(g * P / rho) if rho > 0 and P > 0 else 0.0


# ------------------------------------------------------------------ flux-level cases
def fmt(kind, rhoL, uL, PL, rhoR, uR, PR, n, vf, g, w):
    vals = [rhoL] + list(uL) + [PL, rhoR] + list(uR) + [PR] + list(n) + list(vf) + [g] + list(w)
    return kind + " " + " ".join(str(vlib.f2bits(v)) for v in vals)


def parse_flux_op(op):
    w = op.split()
    v = [vlib.bits2f(x) for x in w[1:]]
    return dict(kind=w[0], rhoL=v[0], uL=v[1:4], PL=v[4], rhoR=v[5], uR=v[6:9], PR=v[9], n=v[10:13],
                vf=v[13:16], g=v[16], w=v[17:20])


def flux_scale(q):
    """same formula as flux_scale() in harness/c05.cpp"""
    g = max(q["g"], 1.00000001)
    aL, aR = sound(g, q["rhoL"], q["PL"]), sound(g, q["rhoR"], q["PR"])
    dl = [q["uL"][i] - q["vf"][i] for i in range(3)]
    dr = [q["uR"][i] - q["vf"][i] for i in range(3)]
    V = max(norm(dl), norm(dr)) + aL + aR
    R, P = q["rhoL"] + q["rhoR"], q["PL"] + q["PR"]
    vf = norm(q["vf"])
    m = R * V
    pf = R * V * V + P
    return (m + 1e-290, pf + m * vf + 1e-290, pf * V + vf * pf + vf * vf * m + 1e-290)


def gen_flux_case(rng):
    """returns (op line, generator class)"""
    cls = rng.choice(["generic", "generic", "generic", "shock", "vacR", "vacL", "vacgen", "vacgen",
                      "identical", "mirror", "mirror", "mirror-fast", "contrast", "supersonic",
                      "tie", "tie", "bothvac", "rest"])
    g = rng.choice(GAMMAS + [rng.uniform(1.02, 2.0)])
    n = rng.choice([axis, unit])(rng)
    span = rng.choice([1, 3, 10])
    rhoL, PL, rhoR, PR = (logu(rng, -span, span) for _ in range(4))
    kind = "f"
    if cls == "contrast":
        rhoL, PL, rhoR, PR = logu(rng, 5, 10), logu(rng, -10, -5), logu(rng, -10, -5), logu(rng, 5, 10)
        if rng.random() < 0.5:
            rhoL, PL, rhoR, PR = rhoR, PR, rhoL, PL
    if cls == "vacR":
        if rng.random() < 0.5:
            rhoR = 0.0
        if rng.random() < 0.5 or rhoR != 0.0:
            PR = 0.0
    if cls == "vacL":
        if rng.random() < 0.5:
            rhoL = 0.0
        if rng.random() < 0.5 or rhoL != 0.0:
            PL = 0.0
    if cls == "bothvac":
        rhoL, PL, rhoR, PR = rng.choice([(0., 0., 0., 0.), (0., PL, rhoR, 0.), (rhoL, 0., 0., PR), (0., PL, 0., PR)])
    aL, aR = sound(g, rhoL, PL), sound(g, rhoR, PR)
    a = max(aL, aR, 1e-30)
    tdgm1 = 2. / (max(g, 1.00000001) - 1.)
    # normal velocities in the face frame
    if cls in ("generic", "contrast"):
        vL, vR = rng.uniform(-2, 2) * aL, rng.uniform(-2, 2) * aR
        if rng.random() < 0.3:
            vL, vR = rng.uniform(-2, 2) * a, rng.uniform(-2, 2) * a
    elif cls == "shock":
        vL, vR = rng.uniform(0, 6) * a, -rng.uniform(0, 6) * a
    elif cls == "supersonic":
        s = rng.choice([1, -1])
        vL, vR = s * rng.uniform(1, 8) * a, s * rng.uniform(1, 8) * a
    elif cls == "vacR":
        vL, vR = rng.choice([rng.uniform(-1.5, 1.5), rng.uniform(-1.5, 0) * tdgm1, rng.uniform(1, 4)]) * aL, rng.uniform(-2, 2) * a
    elif cls == "vacL":
        vR, vL = rng.choice([rng.uniform(-1.5, 1.5), rng.uniform(0, 1.5) * tdgm1, -rng.uniform(1, 4)]) * aR, rng.uniform(-2, 2) * a
    elif cls == "vacgen":
        vd = tdgm1 * (aL + aR) * rng.choice([1.0000001, rng.uniform(1, 1.5), rng.uniform(1, 4)])
        # place x/t = 0 anywhere relative to the two fans
        lo, hi = -tdgm1 * aL - 0.3 * vd - aL, aL + 0.3 * vd
        vL = rng.uniform(lo, hi)
        vR = vL + vd
    elif cls == "rest":
        vL = vR = 0.0
    elif cls == "bothvac":
        vL, vR = rng.uniform(-1, 1), rng.uniform(-1, 1)
    else:
        vL, vR = rng.uniform(-2, 2) * a, rng.uniform(-2, 2) * a
    tm = rng.choice([0.0, 1.0, 3.0]) * a
    uLf = [vL * n[i] for i in range(3)]
    uRf = [vR * n[i] for i in range(3)]
    tL, tR = tangent(rng, n, tm), tangent(rng, n, tm)
    uLf = [uLf[i] + tL[i] for i in range(3)]
    uRf = [uRf[i] + tR[i] for i in range(3)]
    if cls == "identical":
        rhoR, PR, uRf = rhoL, PL, list(uLf)
        kind = "i"
    if cls in ("mirror", "mirror-fast"):
        # R = mirror image of L with respect to the face (exact for axis normals)
        if rng.random() < 0.7:
            n = axis(rng)
        m = rng.choice([rng.uniform(0, 1.499), rng.uniform(-1, 0), -rng.uniform(1, 2) * tdgm1]) if cls == "mirror" else rng.uniform(1.5, 4)
        rhoR, PR = rhoL, PL
        a = max(aL, 1e-30)
        vL = m * aL
        tm = rng.choice([0.0, 1.0, 3.0]) * a
        tL = tangent(rng, n, tm)
        uLf = [vL * n[i] + tL[i] for i in range(3)]
        d = dot(uLf, n)
        uRf = [uLf[i] - 2 * d * n[i] for i in range(3)]
        kind = "m" if cls == "mirror" else "f"
    vf = [0.0, 0.0, 0.0]
    if cls not in ("mirror", "mirror-fast") or rng.random() < 0.3:
        if rng.random() < 0.6:
            u = unit(rng)
            mag = rng.choice([0.3, 1.0, 3.0]) * a * rng.random()
            vf = [u[i] * mag for i in range(3)]
    uL = [uLf[i] + vf[i] for i in range(3)]
    uR = [uRf[i] + vf[i] for i in range(3)]
    if cls == "tie":
        kind = "t"
        t = rng.choice(["pstar=P", "sonicR", "sonicL", "gamma1", "gamma1.001", "denormal", "vacgen-edge", "sym-rest", "fan-tail",
                        "fan-tail-rounded", "fan-tail-rounded"])
        vf = [0.0, 0.0, 0.0]
        n = axis(rng)
        if t == "pstar=P":
            rhoR, PR = rhoL, PL
            uL = [0.0] * 3
            uR = [0.0] * 3
        elif t == "sonicR":      # right vacuum, uL == aL exactly (needs the harness' aL: use rho=gamma, P=1 -> a=1)
            g, rhoL, PL, rhoR, PR = 2.0, 2.0, 1.0, 0.0, 0.0
            uL = [n[i] * 1.0 for i in range(3)]
            uR = [0.0] * 3
        elif t == "sonicL":
            g, rhoR, PR, rhoL, PL = 2.0, 2.0, 1.0, 0.0, 0.0
            uR = [-n[i] * 1.0 for i in range(3)]
            uL = [0.0] * 3
        elif t == "gamma1":
            g = 1.0
        elif t == "gamma1.001":
            g = 1.001
        elif t == "fan-tail-rounded":
            # the tail of a fan next to vacuum within a few ulp of the face, computed like the C++ does
            G = max(g, 1.00000001)
            t1 = 2. / (G - 1.)
            k = rng.randrange(0, 4)
            mode = rng.choice(["R", "L", "genR", "genL"])
            if mode in ("R", "genL"):
                aa = math.sqrt(G * PL * (1. / (rhoL + 2.0 ** -1022)))
                v = -(t1 * aa)
                for _ in range(k):
                    v = math.nextafter(v, 0.0)
                uL = [n[i] * v for i in range(3)]
                if mode == "R":
                    rhoR, PR, uR = 0.0, 0.0, [0.0] * 3
                else:
                    aR_ = math.sqrt(G * PR * (1. / (rhoR + 2.0 ** -1022)))
                    uR = [n[i] * (3 * t1 * (aa + aR_)) for i in range(3)]
            else:
                aa = math.sqrt(G * PR * (1. / (rhoR + 2.0 ** -1022)))
                v = t1 * aa
                for _ in range(k):
                    v = math.nextafter(v, 0.0)
                uR = [n[i] * v for i in range(3)]
                if mode == "L":
                    rhoL, PL, uL = 0.0, 0.0, [0.0] * 3
                else:
                    aL_ = math.sqrt(G * PL * (1. / (rhoL + 2.0 ** -1022)))
                    uL = [-n[i] * (3 * t1 * (aa + aL_)) for i in range(3)]
        elif t == "denormal":
            kind = "d"
            # one side entirely in the subnormal range (P/rho stays moderate so that the sound speed is finite)
            subs = SUBNORMALS
            if rng.random() < 0.5:
                rhoL, PL = rng.choice(subs), rng.choice(subs)
            else:
                rhoR, PR = rng.choice(subs), rng.choice(subs)
            uL = [rng.uniform(-1, 1) * n[i] for i in range(3)]
            uR = [rng.uniform(-1, 1) * n[i] for i in range(3)]
        elif t == "vacgen-edge":  # a = 1 on both sides, gamma = 2: tdgm1 * abar = 4 = vdiff exactly
            g, rhoL, PL, rhoR, PR = 2.0, 2.0, 1.0, 2.0, 1.0
            c = rng.choice([-2.0, -3.0, -1.0, 0.0])
            uL = [n[i] * c for i in range(3)]
            uR = [n[i] * (c + 4.0) for i in range(3)]
        elif t == "sym-rest":
            rhoR, PR = rhoL, PL
            c = rng.choice([0.5, 1.0, 0.25])
            g, rhoL, PL, rhoR, PR = 2.0, 2.0, 1.0, 2.0, 1.0
            uL = [n[i] * c for i in range(3)]
            uR = [-n[i] * c for i in range(3)]
        else:                     # fan tail exactly at the face: uL = -tdgm1 aL, a = 1, gamma = 2
            g, rhoL, PL, rhoR, PR = 2.0, 2.0, 1.0, 0.0, 0.0
            uL = [-n[i] * 2.0 for i in range(3)]
            uR = [0.0] * 3
        cls = "tie:" + t
    wmag = rng.choice([0.0, 0.5, 2.0, 10.0]) * a * rng.random()
    wu = unit(rng)
    w = [wu[i] * wmag for i in range(3)]
    return fmt(kind, rhoL, uL, PL, rhoR, uR, PR, n, vf, g, w), cls


# ------------------------------------------------------------------ 1D sampler cases
def gen_sampler_case(rng):
    g = rng.choice(GAMMAS + [rng.uniform(1.02, 2.0)])
    G = max(g, 1.00000001)
    tdgm1 = 2. / (G - 1.)
    b = vlib.f2bits
    which = rng.choice(["sr", "sl", "sg", "x", "x", "x"])
    span = rng.choice([1, 3, 10])
    rho, P = logu(rng, -span, span), logu(rng, -span, span)
    a = sound(g, rho, P)
    if which == "sr":
        u = rng.uniform(-1.5 * tdgm1, 3) * a
        d = rng.choice([0.0, rng.uniform(u - 2 * a, u + 1.3 * tdgm1 * a), u - a, u + tdgm1 * a])
        return "sr %d %d %d %d %d %d" % (b(g), b(rho), b(u), b(P), b(a), b(d)), "sr"
    if which == "sl":
        u = rng.uniform(-3, 1.5 * tdgm1) * a
        d = rng.choice([0.0, rng.uniform(u - 1.3 * tdgm1 * a, u + 2 * a), u + a, u - tdgm1 * a])
        return "sl %d %d %d %d %d %d" % (b(g), b(rho), b(u), b(P), b(a), b(d)), "sl"
    rho2, P2 = logu(rng, -span, span), logu(rng, -span, span)
    a2 = sound(g, rho2, P2)
    if which == "sg":
        vd = tdgm1 * (a + a2) * rng.uniform(1, 2)
        uL = rng.uniform(-3, 3) * a
        uR = uL + vd
        d = rng.choice([0.0, rng.uniform(uL - 2 * a, uR + 2 * a2), uL + tdgm1 * a, uR - tdgm1 * a2, uL - a, uR + a2])
        return "sg %d %d %d %d %d %d %d %d %d %d" % (b(g), b(rho), b(uL), b(P), b(a), b(rho2), b(uR), b(P2), b(a2), b(d)), "sg"
    # x: the public solve(); vacuum exits are compared with the model, everything gets the oracles
    z = rng.random()
    if z < 0.2:
        if rng.random() < 0.5:
            rho2 = 0.0
        else:
            P2 = 0.0
    elif z < 0.4:
        if rng.random() < 0.5:
            rho = 0.0
        else:
            P = 0.0
    elif z < 0.45:
        rho, P, rho2, P2 = rng.choice([(0., 0., 0., 0.), (0., P, rho2, 0.), (rho, 0., 0., P2)])
    elif z < 0.5:
        subs = SUBNORMALS
        if rng.random() < 0.5:
            rho, P = rng.choice(subs), rng.choice(subs)
        else:
            rho2, P2 = rng.choice(subs), rng.choice(subs)
    a, a2 = sound(g, rho, P), sound(g, rho2, P2)
    am = max(a, a2, 1e-30)
    if z >= 0.5 and z < 0.75:
        vd = tdgm1 * (a + a2) * rng.uniform(1, 2)
        uL = rng.uniform(-3, 3) * am
        uR = uL + vd
    else:
        uL, uR = rng.uniform(-3, 3) * am, rng.uniform(-3, 3) * am
    lo = min(uL - 2 * a, uR - tdgm1 * a2 - a2)
    hi = max(uR + 2 * a2, uL + tdgm1 * a + a)
    d = rng.choice([0.0, rng.uniform(lo, hi), rng.uniform(lo, hi)])
    w = rng.choice([0.0, rng.uniform(-3, 3) * am])
    return "x %d %d %d %d %d %d %d %d %d" % (b(g), b(rho), b(uL), b(P), b(rho2), b(uR), b(P2), b(d), b(w)), "x"


# ------------------------------------------------------------------ comparison
def close(a, b, scale):
    return vlib.floats_close(a, b, 1e-12, TOL * scale)


def cmp_lines(impl, model, op):
    """impl line vs model line (branch tag already or not stripped)"""
    m = vlib.strip_branch(model).split()
    a = impl.split()
    if not a or not m or a[0] != m[0]:
        return False
    if a[0] == "F":
        sc = flux_scale(parse_flux_op(op))
        scl = [sc[0], sc[1], sc[1], sc[1], sc[2]]
        if len(a) != 14 or a[1] != m[1]:
            return False
        if not all(close(a[2 + i], m[2 + i], scl[i]) for i in range(5)):
            return False
        if len(m) != 14 or a[8] != m[8]:
            return False
        return all(close(a[9 + i], m[9 + i], scl[i]) for i in range(5))
    if a[0] == "X":
        if a[1] != m[1] or len(a) != 5 or len(m) != 5:
            return False
        w = [vlib.bits2f(x) for x in op.split()[1:]]
        R, V, P = w[1] + w[4], abs(w[2]) + abs(w[5]) + abs(w[7]) + sound(w[0], w[1], w[3]) + sound(w[0], w[4], w[6]), w[3] + w[6]
        return close(a[2], m[2], R) and close(a[3], m[3], V) and close(a[4], m[4], P)
    if a[0] == "S":
        if len(a) != 11 or len(m) != 11:
            return False
        ok = a[2] == m[2] and a[7] == m[7]
        for i in (3, 4, 5, 8, 9, 10):
            ok = ok and vlib.floats_close(a[i], m[i], 1e-10, 0.0)
        return ok
    return False


def bit_exact(impl, model):
    return impl == vlib.strip_branch(model)


DBL_MIN = 2.0 ** -1022


def _hllc_1d(q):
    """face-frame quantities exactly as HLLCRiemannSolver computes them (same IEEE operations)"""
    G = max(q["g"], 1.00000001)
    uLf = [q["uL"][i] - q["vf"][i] for i in range(3)]
    uRf = [q["uR"][i] - q["vf"][i] for i in range(3)]
    n = q["n"]
    vL = uLf[0] * n[0] + uLf[1] * n[1] + uLf[2] * n[2]
    vR = uRf[0] * n[0] + uRf[1] * n[1] + uRf[2] * n[2]
    aL = math.sqrt(G * q["PL"] * (1. / (q["rhoL"] + DBL_MIN)))
    aR = math.sqrt(G * q["PR"] * (1. / (q["rhoR"] + DBL_MIN)))
    return G, vL, vR, aL, aR


def sstar_zero_unordered(q, exact):
    """S*, S_L, S_R exactly as HLLCRiemannSolver computes them (same IEEE operations).
    exact: require S* == 0.0; otherwise |S*| <= 1e-12 * (velocity scale incl. boost)."""
    try:
        if not (q["rhoL"] > 0 and q["PL"] > 0 and q["rhoR"] > 0 and q["PR"] > 0):
            return False
        G, vL, vR, aL, aR = _hllc_1d(q)
        PL, PR, rhoL, rhoR = q["PL"], q["PR"], q["rhoL"], q["rhoR"]
        if 2. / (G - 1.) * (aL + aR) <= vR - vL:
            return False
        pstar = max(0., 0.5 * ((PL + PR) - 0.25 * (vR - vL) * (rhoL + rhoR) * (aL + aR)))
        qL = qR = 1.
        if pstar > PL:
            qL = math.sqrt(1. + 0.5 * (G + 1.) / G * (pstar * (1. / (PL + DBL_MIN)) - 1.))
        if pstar > PR:
            qR = math.sqrt(1. + 0.5 * (G + 1.) / G * (pstar * (1. / (PR + DBL_MIN)) - 1.))
        SLm, SRm = -aL * qL, aR * qR
        Sstar = ((PR - PL) + (rhoL * vL * SLm - rhoR * vR * SRm)) / ((rhoL * SLm - rhoR * SRm) + DBL_MIN)
        if not (SLm + vL >= 0. or SRm + vR <= 0.):
            return False
        if exact:
            return Sstar == 0.
        V = abs(vL) + abs(vR) + aL + aR + norm(q["vf"]) + norm(q["w"]) + norm(q["uL"]) + norm(q["uR"])
        return abs(Sstar) <= 1e-12 * V
    except (ValueError, OverflowError, ZeroDivisionError):
        return False


FINDING_KEY = "hllc:mirror-at-sstar-zero-unordered-speeds"


def oracle_key(what, grp):
    """key = failing clause.  ONE recorded finding has its own key, computed from the input so that
    the known-finding entry cannot hide any other failure of the mirror / Galilean clauses:
    HLLC path, contact estimate S* == 0 exactly (for the Galilean clause: zero to rounding, the
    boost moves it across 0) while the outer estimates do not straddle the face (S_L >= 0 or
    S_R <= 0) -- the set excluded by the hypothesis of theorem hllc_mirror."""
    toks = [t.split("(")[0] for t in what.split()]
    op = grp[-1] if grp else ""
    kind = op.split()[0] if op else ""
    if kind in ("f", "t", "m", "i") and set(toks) <= {"hllc-mirror", "hllc-galilean"}:
        if sstar_zero_unordered(parse_flux_op(op), exact="hllc-mirror" in toks):
            return FINDING_KEY
    return "flux:" + toks[0]


def run(ctx):
    ctx.level = "proof"
    ctx.assumptions += [
        "theorems are statements over exact real arithmetic (DBL_MIN guards = 0, 1/x overflows only at x = 0); rounding, overflow and NaN are float notions: bounded/searched only empirically (correspondence tolerance 1e-10 of the flux scale, finiteness oracles)",
        "libm sqrt/pow of the Lean Float driver and of the C++ are the same glibc functions",
        "rho, P >= 0 and finite inputs (the solvers assert this); the constructors clamp gamma to >= 1.00000001, so every theorem holds for every gamma argument (mirror_no_exchange needs no upper bound either)",
        "hllc_mirror carries the hypothesis h0: on the HLLC path S* != 0 or S_L < 0 < S_R; it excludes exactly the set on which the code is NOT antisymmetric (S* = 0 exactly with unordered wave-speed estimates; theorem hllc_mirror_fails_for_fast_symmetric_collision; recorded finding hllc:mirror-at-sstar-zero-unordered-speeds)",
        "hllc_textbook is stated for ordered wave-speed estimates S_L <= S* <= S_R (as in the property); the estimates themselves (PVRS pressure) are part of the model and can be disordered for extreme density/pressure contrasts",
        "Galilean covariance of the implementation is checked relative to the largest velocity involved (eps*(|u|+|vface|+|w|) limits what doubles can represent); subnormal densities/pressures (kind d) are compared with the model but get no oracle",
        "the complete ExactRiemannSolver::solve_for_flux is modelled (Model/ExactFlux.lean around C11's ExactRiemann.solve, read-only import) and runs in the correspondence; its Newton loop has no counter in the C++: the model bounds it by a fuel (1e5, never exhausted in the runs); the exact-solver theorems hold for every fuel, i.e. independently of convergence",
        "exact_mirror / exact_flux_mirror_partial exclude sampling speeds exactly on the contact u*, on a fan tail next to the star region, or on both vacuum fronts (MirrorTieFree): at the contact the solution is two-valued; exact_mirror_no_exchange_partial assumes that the star region is sampled (hstar), measured on every run (evidence exact_mirror_star_region)",
        "hllc_textbook's premise S_L <= S* <= S_R is measured on every run (evidence hllc_ordered_wave_speeds)",
    ]
    ok = ctx.obligations("CMacVerif.Props.C05", ["drv_c05"])
    h = vlib.build_harness("c05")
    nflux = ctx.budget(28000, 2000000)
    nsamp = ctx.budget(14000, 1000000)
    ctx.cov["rule"] = ("flux cases: rho, P log-uniform over 2/6/20 decades plus exact 0 and subnormals around 2^-1024; normal velocities sub/supersonic, colliding, "
                       "diverging past vacuum generation; tangential velocities; axis and random unit normals; face velocities; identical and mirror-image states; "
                       "exact ties (sonic point, fan tail exact and within a few ulp, vacuum-generation threshold, pstar = P, gamma = 1); 1D cases: the private samplers and solve() at random x/t. "
                       "distinct = different op text; non-trivial = HLLC branch other than the plain upwind flux (41/43) / a sampler case")
    ctx.cov["tolerance"] = "flux components within %g of the flux scale (rho_L+rho_R)(|u|+a)^k + ..., discrete parts (coarse branch, flags) identical" % TOL
    if not ok:
        return 0
    chunk = 150000
    exact = total = 0
    gen_hist = {}
    ord_hist = {}     # generator class -> [HLLC-path cases, of which with ordered wave-speed estimates]
    mstar = [0, 0]    # mirror-image ops (kind m): [total, exact solver sampled its star region / vacuum]
    todo = [("corpus", None)] + [("flux", min(chunk, nflux - k)) for k in range(0, nflux, chunk)] \
        + [("samp", min(chunk, nsamp - k)) for k in range(0, nsamp, chunk)]
    for what, cnt in todo:
        ops, classes = [], []
        if what == "corpus":
            ops = list(vlib.corpus_ops("C05"))
            classes = ["corpus"] * len(ops)
            if not ops:
                continue
        else:
            gen = gen_flux_case if what == "flux" else gen_sampler_case
            for _ in range(cnt):
                o, c = gen(ctx.rng)
                ops.append(o)
                classes.append(c)
        n, impl, model, orc = ctx.correspond("riemann", h, vlib.driver("drv_c05"), ops, cmp=cmp_lines, oracle_key=oracle_key)
        for i, op in enumerate(ops):
            ml = model[i] if i < len(model) else ""
            il = impl[i] if i < len(impl) else ""
            if bit_exact(il, ml):
                exact += 1
            br = ml.split(" #")[1] if " #" in ml else "?"
            ctx.branch(br)
            gen_hist[classes[i]] = gen_hist.get(classes[i], 0) + 1
            nontriv = True
            if br.startswith("h"):
                hb = int(br[1:].split("x")[0])
                nontriv = hb % 100 not in (41, 43) or hb >= 100
                if op.startswith("m "):
                    xb = int(br[1:].split("x")[1])
                    mstar[0] += 1
                    # 51/54/56/60: star region behind a right/left shock or rarefaction; < 50: vacuum exits
                    mstar[1] += 1 if (xb in (51, 54, 56, 60) or xb < 50) else 0
                if hb % 100 >= 41:
                    o = ord_hist.setdefault(classes[i], [0, 0])
                    o[0] += 1
                    o[1] += 0 if (hb // 100) & 8 else 1
            ctx.distinct(hash(op), nontrivial=nontriv)
        ctx.count(len(ops))
        total += len(ops)
        if len(ctx.cov["samples"]) < 6 and ops:
            k = len(ops) // 2
            ctx.sample({"op": ops[k], "impl": impl[k] if k < len(impl) else None, "class": classes[k]})
    ctx.cov["bit_exact_rate"] = round(exact / max(1, total), 6)
    ctx.cov["generator_classes"] = gen_hist
    # premise of hllc_textbook (S_L <= S* <= S_R), measured on the model's bit-identical run
    nh = sum(v[0] for v in ord_hist.values())
    no = sum(v[1] for v in ord_hist.values())
    ctx.cov["hllc_ordered_wave_speeds"] = {"hllc_path_cases": nh, "ordered": no, "fraction": round(no / max(1, nh), 6),
                                           "unordered_by_generator_class": {k: v[0] - v[1] for k, v in sorted(ord_hist.items()) if v[0] - v[1]}}
    # coverage gate: every branch of the model must have been taken
    seen_h, seen_x, seen_s = set(), set(), set()
    flags = set()
    for k in ctx.cov["branch_histogram"]:
        if k.startswith("h"):
            hb, xb = k[1:].split("x")
            seen_h.add(int(hb) % 100)
            if int(hb) >= 100:
                flags.add(int(hb) // 100)
            seen_x.add(int(xb))
        elif k.startswith("x"):
            seen_x.add(int(k[1:]))
        elif k.startswith("s"):
            a, b = k[1:].split("h")
            seen_s.add(int(a))
            seen_s.add(int(b))
    missing = [b for b in HLLC_BASE if b not in seen_h] + ["x%d" % t for t in SAMPLER_TAGS + EXACT_TAGS if t not in seen_x] \
        + ["s%d" % t for t in SAMPLER_TAGS[1:] if t not in seen_s]
    for need in (1, 2, 3, 4, 8):   # left shock, right shock, both, clamped pressure estimate, unordered speeds
        if not any((f & need) == need for f in flags):
            missing.append("qflags%d" % need)
    # premise hstar of exact_mirror_no_exchange_partial, measured on the model's bit-identical run
    ctx.cov["exact_mirror_star_region"] = {"mirror_ops": mstar[0], "star_region_or_vacuum_sampled": mstar[1]}
    if mstar[1] != mstar[0]:
        ctx.notes.append("premise hstar of exact_mirror_no_exchange_partial failed on %d of %d mirror-image cases" % (mstar[0] - mstar[1], mstar[0]))
    ctx.cov["branches_never_taken"] = missing
    if missing:
        ctx.broken_obligation("coverage gate: model branches never taken by the generated cases: %s" % missing)
    return 0


def replay(ctx, path):
    return vlib.generic_replay(ctx, path, "c05", "drv_c05", cmp=cmp_lines)


MANIFEST = dict(
    category="proof",
    text=("Lean theorems over exact reals about the statement-by-statement model of HLLCRiemannSolver::solve_for_flux and of the vacuum "
          "branches of ExactRiemannSolver (all inputs, unbounded): Galilean covariance of the flux (hllc_galilean) and of the sampled vacuum "
          "states (vacuum_galilean), identical states give the analytic Euler flux (hllc_identical), flux = Toro's textbook HLLC flux "
          "F_K + S_K(U*_K - U_K) for ordered wave speeds (hllc_textbook), HLLC flux = exact solver's flux in every vacuum regime "
          "(vacuum_same_as_exact), sampled states have rho, P >= 0 (vacuum_sample_physical), fans join state and vacuum continuously "
          "(vacuum_fan_continuous), no jump at S_L = 0, S_R = 0, S* = 0 (hllc_continuous_switch, hllc_contact_at_rest), mirror states closing "
          "below 1.5 sound speeds exchange no mass/energy (mirror_no_exchange), mirror antisymmetry of all five components "
          "(hllc_mirror: for S* != 0 or S_L < 0 < S_R; on the excluded set the code is proved NOT antisymmetric, "
          "hllc_mirror_fails_for_fast_symmetric_collision). The same definitions compiled at Float agree bit for bit "
          "with both real solver classes on identical doubles; the symmetry relations are also evaluated on the implementation. "
          "Exact solver (complete solve_for_flux incl. the Newton/Brent path, model ExactFlux around C11's solve): exact_galilean and "
          "exact_flux_galilean (no hypotheses), exact_mirror (off the ties), exact_identical, vacuum_same_as_exact_full, "
          "exact_flux_mirror_partial, exact_mirror_no_exchange_partial; all for every fuel of the root finder."),
    note=("Trusted: Lean kernel + 3 standard axioms; hand model (tied by bit-exact correspondence incl. the private samplers and the 1/x "
          "overflow tests); exact-arithmetic theorems say nothing about rounding/overflow/NaN (searched by oracles; the NaN at a fan tail they found was fixed by 52f78a3); DBL_MIN guards = 0 and gamma clamp as in the constructors; hllc_mirror needs hypothesis h0 "
          "(counterexample theorem + recorded finding hllc:mirror-at-sstar-zero-unordered-speeds); the wave-speed estimates are not "
          "shown to be ordered (they are not, for extreme contrasts); iterative path of the exact solver: model imported read-only "
          "from C11; exact mirror statements exclude the contact/fan-tail ties, the exact no-exchange statement assumes the star region is "
          "sampled (measured each run); exact theorems say nothing about the accuracy of P* (C11)."),
    technique="Lean 4 proof over exact real arithmetic (one generic definition, instantiated at Float and R) + differential correspondence on identical doubles")
