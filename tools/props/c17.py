"""C17 — orientation and in-sphere tests return the exact sign (DESIGN §6 C17)."""
import itertools
import math
import os
import vlib

ONE = 0x3FF << 52          # bit pattern of 1.0; coordinates in [1,2) are ONE | mantissa
MMAX = (1 << 52) - 1


def pat(m):
    assert 0 <= m <= MMAX
    return ONE | m


def line(op, pts):
    return op + " " + " ".join(str(pat(c)) for p in pts for c in p)


def in_range(pts):
    return all(0 <= c <= MMAX for p in pts for c in p)


# ------------------------------------------------------------------ exact references (python ints)

def orient_val(a, b, c, d):
    ad = [a[i] - d[i] for i in range(3)]
    bd = [b[i] - d[i] for i in range(3)]
    cd = [c[i] - d[i] for i in range(3)]
    return (ad[2] * (bd[0] * cd[1] - cd[0] * bd[1]) + bd[2] * (cd[0] * ad[1] - ad[0] * cd[1])
            + cd[2] * (ad[0] * bd[1] - bd[0] * ad[1]))


def insphere_val(a, b, c, d, e):
    ae, be, ce, de = ([p[i] - e[i] for i in range(3)] for p in (a, b, c, d))
    m2 = lambda p, q: p[0] * q[1] - q[0] * p[1]
    n2 = lambda p: p[0] * p[0] + p[1] * p[1] + p[2] * p[2]
    ab, bc, cd, da, ac, bd = m2(ae, be), m2(be, ce), m2(ce, de), m2(de, ae), m2(ae, ce), m2(be, de)
    abc = ae[2] * bc - be[2] * ac + ce[2] * ab
    bcd = be[2] * cd - ce[2] * bd + de[2] * bc
    cda = ce[2] * da + de[2] * ac + ae[2] * cd
    dab = de[2] * ab + ae[2] * bd + be[2] * da
    return n2(de) * abc - n2(ce) * dab + n2(be) * cda - n2(ae) * bcd


# ------------------------------------------------------------------ generators

def rnd_point(rng):
    return [rng.getrandbits(52) for _ in range(3)]


def near_points(rng, n):
    """points inside a small cube of side 2^k mantissa units"""
    k = rng.randint(3, 51)
    base = [rng.randrange(0, (1 << 52) - (1 << k)) for _ in range(3)]
    return [[base[i] + rng.getrandbits(k) for i in range(3)] for _ in range(n)]


def shift_scale(rng, pts, maxshift=45):
    """translate integer points to non-negative coordinates, scale by 2^s, translate randomly,
    keeping every coordinate a 52-bit mantissa; None if impossible"""
    lo = [min(p[i] for p in pts) for i in range(3)]
    q = [[p[i] - lo[i] for i in range(3)] for p in pts]
    ext = max(max(p) for p in q)
    if ext > MMAX:
        return None
    smax = 0
    while smax < maxshift and (ext << (smax + 1)) <= MMAX:
        smax += 1
    s = rng.randint(0, smax)
    q = [[c << s for c in p] for p in q]
    off = [rng.randint(0, MMAX - max(p[i] for p in q)) for i in range(3)]
    if rng.random() < 0.3:                      # keep the low bits zero (exact products) sometimes
        off = [(o >> s) << s for o in off]
    return [[p[i] + off[i] for i in range(3)] for p in q]


def coplanar_lattice(rng):
    """four exactly coplanar lattice points o + i*u + j*v (small integers, then scaled)"""
    r = rng.choice([2, 5, 50, 1000])
    u = [rng.randint(-r, r) for _ in range(3)]
    v = [rng.randint(-r, r) for _ in range(3)]
    pts = []
    for _ in range(4):
        i, j = rng.randint(-9, 9), rng.randint(-9, 9)
        pts.append([i * u[k] + j * v[k] for k in range(3)])
    return shift_scale(rng, pts)


def mixed_component(rng):
    return rng.choice([0, 0, rng.randint(1, 8), -rng.randint(1, 8), rng.getrandbits(rng.randint(20, 49)),
                       -rng.getrandbits(rng.randint(20, 49))])


def coplanar_mixed(rng):
    """exactly coplanar, direction vectors with components of wildly different magnitude
    (0, a few ulp, 2^20..2^49): single terms of the error bound vanish or dominate"""
    for _ in range(50):
        u = [mixed_component(rng) for _ in range(3)]
        v = [mixed_component(rng) for _ in range(3)]
        coef = [(0, 0), (1, 0), (0, 1), (rng.randint(-3, 3), rng.randint(-3, 3))]
        rng.shuffle(coef)
        pts = [[i * u[k] + j * v[k] for k in range(3)] for (i, j) in coef]
        r = shift_scale(rng, pts, maxshift=0)
        if r is not None:
            return r
    return coplanar_lattice(rng)


def coplanar5_mixed(rng):
    """five exactly coplanar points (degenerate sphere: the in-sphere determinant vanishes), direction
    vectors of mixed magnitude, some points a few steps and some 2^20.. steps away"""
    for _ in range(50):
        u = [mixed_component(rng) for _ in range(3)]
        v = [mixed_component(rng) for _ in range(3)]
        coef = [(0, 0)]
        for _ in range(4):
            big = rng.random() < 0.4
            r = (1 << rng.randint(10, 24)) if big else 4
            coef.append((rng.randint(-r, r), rng.randint(-r, r)))
        rng.shuffle(coef)
        pts = [[i * u[k] + j * v[k] for k in range(3)] for (i, j) in coef]
        r = shift_scale(rng, pts, maxshift=0)
        if r is not None:
            return r
    return coplanar_plus_one(rng)


def coplanar_big(rng):
    """a, b, c random 52-bit points, d = a + i(b-a) + j(c-a): coplanar with full-width mantissas"""
    for _ in range(200):
        a, b, c = rnd_point(rng), rnd_point(rng), rnd_point(rng)
        i, j = rng.choice([(1, 1), (1, 1), (2, -1), (-1, 2), (1, -1), (-1, 1), (2, 2), (0, 2), (3, -1)])
        d = [a[k] + i * (b[k] - a[k]) + j * (c[k] - a[k]) for k in range(3)]
        pts = [a, b, c, d]
        if in_range(pts):
            rng.shuffle(pts)
            return pts
    return coplanar_lattice(rng)


def corner_points(rng, n):
    """extreme mantissas 0 / 2^52-1 (largest determinants, widest intermediates)"""
    return [[rng.choice([0, MMAX, MMAX, 0, 1, MMAX - 1]) for _ in range(3)] for _ in range(n)]


_SPHERES = {}


def sphere_points(N):
    if N not in _SPHERES:
        r = int(N ** 0.5) + 1
        _SPHERES[N] = [(x, y, z) for x in range(-r, r + 1) for y in range(-r, r + 1) for z in range(-r, r + 1)
                       if x * x + y * y + z * z == N]
    return _SPHERES[N]


SPHERE_N = [9, 14, 17, 26, 29, 41, 50, 74, 101, 146, 209, 594, 1001, 2049]


def cospherical_lattice(rng):
    """five distinct lattice points on one sphere x²+y²+z² = N around a lattice centre"""
    while True:
        N = rng.choice(SPHERE_N)
        sp = sphere_points(N)
        if len(sp) < 5:
            continue
        pts = [list(p) for p in rng.sample(sp, 5)]
        if rng.random() < 0.15:                 # test point equal to a vertex: zero row
            pts[4] = list(pts[rng.randrange(4)])
        r = shift_scale(rng, pts)
        if r is not None:
            return r


def cospherical_big(rng):
    """cospherical with (nearly) full-width mantissas: centre +- the sign/permutation images of one
    large vector"""
    for _ in range(200):
        w = [rng.getrandbits(rng.randint(30, 50)) for _ in range(3)]
        c = rnd_point(rng)
        imgs = set()
        for perm in itertools.permutations(range(3)):
            for sg in itertools.product((1, -1), repeat=3):
                imgs.add(tuple(sg[k] * w[perm[k]] for k in range(3)))
        imgs = sorted(imgs)
        if len(imgs) < 5:
            continue
        pts = [[c[k] + v[k] for k in range(3)] for v in rng.sample(imgs, 5)]
        if in_range(pts):
            return pts
    return cospherical_lattice(rng)


def cospherical_cap(rng):
    """four points on a small tilted circle (permutations of (B+d1, B+d2, B+d3): plane x+y+z = const)
    and a fifth point far away on the same sphere (a sign image): one squared norm dominates the
    other three by many orders of magnitude, single groups of the error bound decide"""
    for _ in range(200):
        B = rng.getrandbits(rng.randint(40, 50))
        k = rng.randint(2, 34)
        w = [B + rng.getrandbits(k) for _ in range(3)]
        cap = sorted(set(itertools.permutations(w)))
        if len(cap) < 4:
            continue
        far = []
        for perm in cap:
            for sg in itertools.product((1, -1), repeat=3):
                if sg != (1, 1, 1):
                    far.append(tuple(sg[i] * perm[i] for i in range(3)))
        pts = [list(v) for v in rng.sample(cap, 4)] + [list(rng.choice(far))]
        if rng.random() < 0.2:                  # two far points, three on the cap
            pts[3] = list(rng.choice(far))
        rng.shuffle(pts)
        lo = [min(q[i] for q in pts) for i in range(3)]
        hi = [max(q[i] for q in pts) for i in range(3)]
        if any(hi[i] - lo[i] > MMAX for i in range(3)):
            continue
        off = [rng.randint(-lo[i], MMAX - hi[i]) for i in range(3)]
        pts = [[q[i] + off[i] for i in range(3)] for q in pts]
        if in_range(pts) and len(set(map(tuple, pts))) == 5:
            return pts
    return cospherical_big(rng)


def unimodular(rng, n, steps):
    m = [[1 if i == j else 0 for j in range(n)] for i in range(n)]
    for _ in range(steps):
        i, j = rng.sample(range(n), 2)
        f = rng.choice([1, -1, 2, -2, 3, -3])
        if rng.random() < 0.5:
            m[i] = [m[i][k] + f * m[j][k] for k in range(n)]
        else:
            for r in m:
                r[i] += f * r[j]
    return m


def det3i(m):
    return (m[0][0] * (m[1][1] * m[2][2] - m[1][2] * m[2][1]) - m[0][1] * (m[1][0] * m[2][2] - m[1][2] * m[2][0])
            + m[0][2] * (m[1][0] * m[2][1] - m[1][1] * m[2][0]))


def cospherical_antipode(rng):
    """e = origin, three near vertices = rows of a unimodular integer matrix M (det = +-1, entries up
    to ~2^16), fourth vertex = the antipode of e on the sphere through them, a = M^-1 (|row_i|^2)_i: an
    integer point orders of magnitude farther away.  Variant: two rows inside a coordinate plane
    (difference 0 in one coordinate) and the third one step off it."""
    for _ in range(100):
        if rng.random() < 0.4:
            b2 = unimodular(rng, 2, rng.randint(4, 14))
            ax = rng.randrange(3)
            oth = [k for k in range(3) if k != ax]
            m = [[0, 0, 0] for _ in range(3)]
            for r in range(2):
                for cidx in range(2):
                    m[r][oth[cidx]] = b2[r][cidx]
            m[2][ax] = rng.choice([1, -1])
            for k in oth:
                m[2][k] = rng.randint(-3, 3) * rng.choice([0, 1, 1 << rng.randint(0, 8)])
        else:
            m = unimodular(rng, 3, rng.randint(5, 16))
        dt = det3i(m)
        if dt not in (1, -1):
            continue
        n = [sum(c * c for c in row) for row in m]
        # solve m * a = n by Cramer (det = +-1: integer solution)
        a = []
        for k in range(3):
            mk = [[(n[r] if c == k else m[r][c]) for c in range(3)] for r in range(3)]
            a.append(det3i(mk) * dt)
        assert all(sum(m[r][k] * a[k] for k in range(3)) == n[r] for r in range(3))
        pts = [a, m[0], m[1], m[2], [0, 0, 0]]
        if insphere_val(*pts) != 0:
            continue
        if rng.random() < 0.6:
            pass                                   # keep the roles: a far, e the reference
        else:
            rng.shuffle(pts)
        lo = [min(q[i] for q in pts) for i in range(3)]
        hi = [max(q[i] for q in pts) for i in range(3)]
        if any(hi[i] - lo[i] > MMAX for i in range(3)) or len(set(map(tuple, pts))) < 5:
            continue
        ext = max(hi[i] - lo[i] for i in range(3))
        s = 0
        while rng.random() < 0.5 and (ext << (s + 1)) <= MMAX:
            s += 1
        pts = [[c << s for c in q] for q in pts]
        off = [rng.randint(-(lo[i] << s), MMAX - (hi[i] << s)) for i in range(3)]
        return [[q[i] + off[i] for i in range(3)] for q in pts]
    return cospherical_cap(rng)


def clustered_points(rng, n):
    """points of mixed distance to the last one (the point every difference is taken to): far
    (anywhere) or within 2^k ulp, single coordinates equal to the reference coordinate"""
    ref = rnd_point(rng)
    pts = []
    for _ in range(n - 1):
        k = rng.choice([None, None, rng.randint(1, 45)])
        p = []
        for i in range(3):
            if rng.random() < 0.25:
                c = ref[i]
            elif k is None:
                c = rng.getrandbits(52)
            else:
                c = ref[i] + rng.choice([1, -1]) * rng.getrandbits(k)
            p.append(min(MMAX, max(0, c)))
        pts.append(p)
    return pts + [ref]


def bisected(rng, n, val):
    """move ONE coordinate of one point to an integer next to a real root of the determinant (found by
    bisection on the exact integer value): less than one ulp away from degeneracy, in general position"""
    for _ in range(30):
        pts = clustered_points(rng, n) if rng.random() < 0.7 else [rnd_point(rng) for _ in range(n)]
        i, k = rng.randrange(n), rng.randrange(3)

        def f(t):
            q = [list(p) for p in pts]
            q[i][k] = t
            return val(*q)
        lo, hi = 0, MMAX
        flo, fhi = f(lo), f(hi)
        if flo == 0 or fhi == 0:
            pts[i][k] = lo if flo == 0 else hi
            return pts
        if (flo > 0) == (fhi > 0):
            mid = pts[i][k]
            fm = f(mid)
            if fm == 0:
                return pts
            if (fm > 0) == (flo > 0):
                continue
            hi, fhi = mid, fm
        while hi - lo > 1:
            m = (lo + hi) // 2
            fm = f(m)
            if fm == 0:
                lo = hi = m
                break
            if (fm > 0) == (flo > 0):
                lo = m
            else:
                hi = m
        pts[i][k] = rng.choice([lo, hi])
        return pts
    return [rnd_point(rng) for _ in range(n)]


def perturb(rng, pts):
    """move 1..3 coordinates by 1..1000 ulp (units of the mantissa), staying inside [1,2)"""
    pts = [list(p) for p in pts]
    for _ in range(rng.choice([1, 1, 1, 2, 3])):
        i, k = rng.randrange(len(pts)), rng.randrange(3)
        delta = rng.choice([1, 1, 2, 3, rng.randint(1, 1000), rng.randint(1, 1000)]) * rng.choice([1, -1])
        if not (0 <= pts[i][k] + delta <= MMAX):
            delta = -delta
        pts[i][k] += delta
    return pts


ORIENT_GEN = {
    "random": lambda rng: [rnd_point(rng) for _ in range(4)],
    "near": lambda rng: near_points(rng, 4),
    "corner": lambda rng: corner_points(rng, 4),
    "coplanar-lattice": coplanar_lattice,
    "coplanar-mixed": coplanar_mixed,
    "coplanar-big": coplanar_big,
    "perturbed-lattice": lambda rng: perturb(rng, coplanar_lattice(rng)),
    "perturbed-mixed": lambda rng: perturb(rng, coplanar_mixed(rng)),
    "perturbed-big": lambda rng: perturb(rng, coplanar_big(rng)),
    "bisected": lambda rng: bisected(rng, 4, orient_val),
    "clustered": lambda rng: clustered_points(rng, 4),
}
ORIENT_W = {"random": 2, "near": 2, "corner": 1, "coplanar-lattice": 2, "coplanar-mixed": 3, "coplanar-big": 2,
            "perturbed-lattice": 4, "perturbed-mixed": 4, "perturbed-big": 3, "bisected": 5, "clustered": 1}


def coplanar_plus_one(rng):
    p = coplanar_big(rng) if rng.random() < 0.5 else coplanar_lattice(rng)
    return p + [rnd_point(rng) if rng.random() < 0.5 else list(p[rng.randrange(4)])]


INSPHERE_GEN = {
    "random": lambda rng: [rnd_point(rng) for _ in range(5)],
    "near": lambda rng: near_points(rng, 5),
    "corner": lambda rng: corner_points(rng, 5),
    "cospherical-lattice": cospherical_lattice,
    "cospherical-big": cospherical_big,
    "cospherical-cap": cospherical_cap,
    "coplanar5-mixed": coplanar5_mixed,
    "cospherical-antipode": cospherical_antipode,
    "perturbed-antipode": lambda rng: perturb(rng, cospherical_antipode(rng)),
    "perturbed-coplanar5": lambda rng: perturb(rng, coplanar5_mixed(rng)),
    "perturbed-cap": lambda rng: perturb(rng, cospherical_cap(rng)),
    "flat-tetrahedron": coplanar_plus_one,
    "perturbed-lattice": lambda rng: perturb(rng, cospherical_lattice(rng)),
    "perturbed-big": lambda rng: perturb(rng, cospherical_big(rng)),
    "bisected": lambda rng: bisected(rng, 5, insphere_val),
    "clustered": lambda rng: clustered_points(rng, 5),
}
INSPHERE_W = {"random": 2, "near": 2, "corner": 1, "cospherical-lattice": 3, "cospherical-big": 3,
              "cospherical-cap": 3, "perturbed-cap": 3, "coplanar5-mixed": 2, "perturbed-coplanar5": 2, "cospherical-antipode": 4, "perturbed-antipode": 2, "flat-tetrahedron": 1, "perturbed-lattice": 5,
              "perturbed-big": 4, "bisected": 6, "clustered": 1}


def any_bits(rng, n):
    """arbitrary 64-bit patterns (the exact routines only look at the mantissa field); some share
    the mantissa and differ in sign/exponent only"""
    pts = [[rng.getrandbits(64) for _ in range(3)] for _ in range(n)]
    if rng.random() < 0.3:
        i, j = rng.sample(range(n), 2)
        pts[j] = [(c & MMAX) | (rng.getrandbits(12) << 52) for c in pts[i]]
    return pts


def weighted(rng, table):
    names = sorted(table)
    return rng.choices(names, weights=[table[n] for n in names])[0]


def gen_mantissa_ops(rng, n):
    """single bit patterns for get_mantissa: doubles in [1,2) (random, boundaries, single bits) and
    arbitrary patterns (other exponents, sign, inf/nan, subnormal)"""
    pats = [ONE, ONE | MMAX, ONE | 1, ONE | (1 << 51), 0, 1 << 63, 0x7FF << 52, (0x7FF << 52) | 1, 1, (0x400 << 52),
            (0x3FE << 52) | MMAX]
    pats += [ONE | (1 << b) for b in range(52)]
    while len(pats) < n:
        r = rng.random()
        if r < 0.6:
            pats.append(ONE | rng.getrandbits(52))
        elif r < 0.8:
            pats.append(rng.getrandbits(64))
        else:
            pats.append((rng.choice([0x3FE, 0x400, 0x3FF, 0, 0x7FE, 1]) << 52) | rng.getrandbits(52) | (rng.getrandbits(1) << 63))
    return ["m %d" % p for p in pats[:max(n, 63)]]


def gen_ops(rng, n_o, n_i, n_e):
    ops, cats = ["widths"], ["widths"]
    for l in gen_mantissa_ops(rng, max(63, n_e)):
        ops.append(l)
        cats.append("m:pattern")
    for _ in range(n_o):
        c = weighted(rng, ORIENT_W)
        pts = ORIENT_GEN[c](rng)
        ops.append(line("o", pts))
        cats.append("o:" + c)
    for _ in range(n_i):
        c = weighted(rng, INSPHERE_W)
        pts = INSPHERE_GEN[c](rng)
        ops.append(line("i", pts))
        cats.append("i:" + c)
    for k in range(n_e):
        if k % 2 == 0:
            ops.append("oe " + " ".join(str(c) for p in any_bits(rng, 4) for c in p))
            cats.append("oe:anybits")
        else:
            ops.append("ie " + " ".join(str(c) for p in any_bits(rng, 5) for c in p))
            cats.append("ie:anybits")
    return ops, cats


def _offset(rng):
    """one anchor component: 0, or +-(1e-3 .. 1e6), dyadic or not"""
    r = rng.random()
    if r < 0.25:
        return 0.
    mag = 10 ** rng.uniform(-3, 6)
    if rng.random() < 0.3:
        mag = 2. ** round(math.log2(mag))                       # dyadic
    elif rng.random() < 0.5:
        mag = round(mag, rng.randint(0, 3)) or mag              # short decimal (50.5, 70.7, 313.8)
    return mag * rng.choice([1., -1.])


def _side(rng, base):
    f = rng.choice([1., 1., rng.randint(1, 9) / 10., rng.random() + 0.01, 10 ** rng.uniform(-3, 0)])
    return base * f


def box_generators(rng, a, sd):
    """generators on the lower faces / corners, just inside the upper faces, in the middle and random"""
    fr = [0., 0., 0.5, 1. - 2. ** -20, rng.random(), rng.random()]
    pts = []
    for _ in range(rng.randint(1, 8)):
        p = []
        for c in range(3):
            x = a[c] + rng.choice(fr) * sd[c]
            top = a[c] + sd[c]
            if not (x >= a[c]):
                x = a[c]
            if not (x < top):
                x = a[c] + 0.5 * sd[c]
            if not (a[c] <= x < top):
                x = a[c]
            p.append(x)
        pts.append(tuple(p))
    return pts


def gen_boxes(rng, n):
    """simulation boxes (anchor, sides) with generators: the boxes of the parameter files and tests,
    then anchors with INDEPENDENT per-axis offsets over nine decades (0, +-1e-3..1e6, dyadic, short
    decimals, generic) and sides with independent per-axis factors (aspect ratios up to 1e3)"""
    fixed = [((0., 0., 0.), (1., 1., 1.)), ((-0.5, -0.5, -0.5), (1., 1., 1.)), ((0., 0., 0.), (0.3, 0.3, 0.3)),
             ((0., 0., 0.), (3., 1., 2.)), ((-5., -5., -5.), (10., 10., 10.)),
             ((-1.543e17, -1.543e17, -1.543e17), (3.086e17, 3.086e17, 3.086e17)),
             ((0., 50.5, 0.), (0.3, 0.3, 0.3)), ((0., 0., 70.7), (0.1, 0.1, 0.1)),
             ((-120.9, 313.8, 0.), (1.2, 0.6, 1.5))]
    out = []
    for k in range(n):
        if k < len(fixed):
            a, sd = fixed[k]
        else:
            base = rng.choice([1., 0.1, 0.3, 10., 10 ** rng.uniform(-3, 3), 3.086e16 * 10 ** rng.uniform(0, 2)])
            if rng.random() < 0.4:
                s0 = _side(rng, base)
                sd = (s0, s0, s0)
            else:
                sd = tuple(_side(rng, base) for _ in range(3))
            kind = rng.choice(["zero", "centred", "independent", "independent", "independent", "scaled"])
            if kind == "zero":
                a = (0., 0., 0.)
            elif kind == "centred":
                a = tuple(-0.5 * x for x in sd)
            elif kind == "independent":
                a = tuple(_offset(rng) for _ in range(3))
            else:
                a = tuple(base * rng.uniform(-3, 3) for _ in range(3))
        gens = box_generators(rng, a, sd)
        vals = list(a) + list(sd) + [c for g in gens for c in g]
        out.append("box " + " ".join(str(vlib.f2bits(x)) for x in vals))
    return out


def gen_grids(rng, n):
    """whole Voronoi grids: simulation box x generator distribution (regular lattice, perturbed
    lattice, random), 8..200 generators"""
    boxes = [((0., 0., 0.), (1., 1., 1.)), ((-0.5, -0.5, -0.5), (1., 1., 1.)),
             ((-1.543e17, -1.543e17, -1.543e17), (3.086e17, 3.086e17, 3.086e17)), ((0., 0., 0.), (3., 1., 2.)),
             ((0., 50.5, 0.), (0.3, 0.3, 0.3)), ((-5., -5., -5.), (10., 10., 10.)), ((2., 3., 5.), (0.7, 1.9, 0.2)),
             ((0., 0., 0.), (3.086e16, 6.172e16, 3.086e16))]
    kinds = ["regular", "regular", "perturbed", "random"]
    out, meta = [], []
    for k in range(n):
        if k < 2 * len(boxes):
            a, sd = boxes[k % len(boxes)]
        else:
            # one length scale per box, aspect ratio <= 1e3, anchor offset <= 1e3 box sizes per axis (independent)
            base = rng.choice([1., 0.3, 10., 3.086e16, 10 ** rng.uniform(-3, 3)])
            sd = tuple(base * rng.choice([1., 1., rng.random() + 0.01, 10 ** rng.uniform(-3, 0)]) for _ in range(3))
            a = tuple(rng.choice([0., -0.5 * sd[c], base * rng.uniform(-3, 3), base * rng.choice([1., -1.]) * 10 ** rng.uniform(0, 3)])
                      for c in range(3))
        kind = kinds[(k // len(boxes) + k) % len(kinds)] if k < 2 * len(boxes) else rng.choice(kinds)
        pts = []
        if kind in ("regular", "perturbed"):
            nx, ny, nz = (rng.randint(2, 5) for _ in range(3))
            if rng.random() < 0.5:
                ny = nz = nx
            jit = 0. if kind == "regular" else 10 ** rng.uniform(-12, -1)
            for i in range(nx):
                for j in range(ny):
                    for l in range(nz):
                        f = [(i + 0.5) / nx, (j + 0.5) / ny, (l + 0.5) / nz]
                        if jit:
                            f = [min(0.999, max(0.001, x + jit * (rng.random() - 0.5))) for x in f]
                        pts.append(tuple(a[c] + f[c] * sd[c] for c in range(3)))
        else:
            for _ in range(rng.randint(8, 200)):
                pts.append(tuple(a[c] + (0.001 + 0.998 * rng.random()) * sd[c] for c in range(3)))
        pts = pts[:200]
        vals = list(a) + list(sd) + [c for g in pts for c in g]
        out.append("grid " + " ".join(str(vlib.f2bits(x)) for x in vals))
        meta.append({"box": [list(a), list(sd)], "generators": len(pts), "distribution": kind})
    return out, meta


def run_grids(ctx, h):
    """caller-premise stream: the real grid construction with every predicate call audited
    (implementation-level oracle, no model)"""
    ops, meta = gen_grids(ctx.rng, ctx.budget(10, 160))
    rc, out, err = vlib.run_exe(h, "\n".join(ops) + "\n")
    ans, orc = vlib.split_oracle(out)
    st = ctx.cov["correspondence_streams"].setdefault("grid", {"lines": 0, "mismatches": 0, "oracle_failures": 0})
    st["lines"] += len(ops)
    st["oracle_failures"] += len(orc)
    tot = {"grids": len(ans), "generators": 0, "orient3d_adaptive_calls": 0, "insphere_adaptive_calls": 0,
           "exact_calls": 0, "calls_outside_range": 0, "calls_wrong_sign": 0}
    for a in ans:
        w = a.split()
        if len(w) == 7 and w[0] == "grid":
            for key, v in zip(["generators", "orient3d_adaptive_calls", "insphere_adaptive_calls", "exact_calls",
                               "calls_outside_range", "calls_wrong_sign"], w[1:]):
                tot[key] += int(v)
    ctx.cov["grid_construction"] = tot
    ctx.count(len(ans))
    for op, m in zip(ops, meta):
        ctx.distinct(op, nontrivial=False)
    if meta:
        ctx.sample({"family": "grid", "what": meta[0], "impl": ans[0] if ans else None})
    if rc != 0 or len(ans) != len(ops):
        k = min(len(ans), len(ops) - 1)
        ctx.violation("grid:impl-crash", "grid construction harness exited with status %d after %d of %d grids: %s"
                      % (rc, len(ans), len(ops), err[-300:]), {"stream": "grid", "ops": [ops[k]], "what_grid": meta[k]})
    import re
    for o in orc:
        m = re.search(r"line=(\d+)", o)
        i = int(m.group(1)) - 1 if m else 0
        what = re.sub(r"line=\d+\s*", "", o[len("ORACLE"):]).strip()
        for part in what.split(" "):
            key = part.split(":")[0]
            if key:
                ctx.violation(key, "property fails on the implementation (grid %s): %s" % (json_dumps(meta[i]), part[:700]),
                              {"stream": "grid", "ops": [ops[i]], "oracle": o[:2000], "what_grid": meta[i]})


def json_dumps(x):
    import json
    return json.dumps(x)


ALL_BRANCHES = [op + ":" + b for op in ("o", "i")
                for b in ("filter-pos", "filter-neg", "fallback-pos", "fallback-neg", "fallback-zero")]


def oracle_key(what, grp):
    w = what.split()[0] if what else "oracle"
    w = w.split("(")[0].split("=")[0].split(":")[0]
    return "predicates:" + w


def run(ctx):
    ctx.level = "proof"
    ctx.assumptions += [
        "floating point: every +, -, * and the literal 1.e-10 round with relative error <= 2^-53 (IEEE-754 binary64, "
        "round to nearest, no underflow/overflow: coordinates in [1,2) give differences that are 0 or >= 2^-52 in "
        "magnitude, products of at most five of them stay far above 2^-1022); negation and std::abs are exact; the "
        "theorem holds for EVERY such rounding function, it does not use that the differences are exact",
        "Boost cpp_int_backend<w,w,signed_magnitude,unchecked> is modelled as sign + magnitude truncated to w bits after "
        "every operation; Lean proves that the truncation never fires for w >= 162 (orientation) / w >= 272 (in-sphere); "
        "the widths 256 / 278 are read from the real typedefs on every run",
        "the compiler evaluates the double expressions as written (harness built with -O1 -ffp-contract=off; the project's "
        "own build does not enable -ffast-math)",
        "the predicate theorems are about coordinates in [1,2); for the rescaling that establishes this (NewVoronoiBox tetrahedron, "
        "NewVoronoiGrid constructor) Lean proves the real-arithmetic statement (rescale_in_range, rescale_box_in_range: every axis "
        "with its own padded extent maps into [1,2), monotone, wall copies commute with the map) AND the rounded statement "
        "(rescale_rounded_in_range, rescaled_tetra_in_range, rescaled_box_in_range: for every monotone rounding function with relative "
        "error <= 2^-53 and fl 1 = 1, the constant 1 + 4 DBL_EPSILON keeps every rescaled coordinate in [1,2)); its premises are evaluated "
        "on the real code for every generated box (oracle rescale-premise-violated); the rounded wall copies are only checked "
        "(bit-identical to the Lean Float model, oracle rescaled-coordinate-outside-[1,2) / rescaling-not-monotone); "
        "the link value <-> mantissa is proved for every double in [1,2) against the shared decoder Util.ratOfBits (get_mantissa_value) "
        "and get_mantissa itself is compared on single patterns; "
        "that the callers in NewVoronoiCellConstructor hand only rescaled coordinates to the predicates is a caller obligation outside the "
        "Lean model: it is audited on the implementation (stream 'grid': every predicate call of complete grid constructions, keys "
        "caller-passes-coordinate-outside-[1,2) and predicate-sign-differs-in-grid-construction); "
        "outside [1,2) only the exact routines (mantissa field only) are compared",
    ]
    ok = ctx.obligations("CMacVerif.Props.C17", ["drv_c17"])
    # one translation unit: the harness includes the tree's NewVoronoiCellConstructor.cpp and
    # NewVoronoiGrid.cpp itself (against the auditing ExactGeometricTests class)
    h = vlib.build_harness("c17")
    n_o = ctx.budget(12000, 600000)
    n_i = ctx.budget(12000, 600000)
    n_e = ctx.budget(2000, 50000)
    corpus = vlib.corpus_ops("C17")
    ops, cats = gen_ops(ctx.rng, n_o, n_i, n_e)
    ops = corpus + ops
    cats = ["corpus"] * len(corpus) + cats
    ctx.cov["rule"] = (
        "one case = one point configuration given as 64-bit patterns (4 points for orient3d, 5 for insphere); "
        "families: random, near (inside a cube of 2^3..2^51 ulp), corner (mantissas 0 / 2^52-1), exactly coplanar / cospherical "
        "(small lattices scaled by 2^s; mixed-magnitude direction vectors; full-width mantissas; four points on a small tilted circle plus a far "
        "point of the same sphere; five coplanar points; a unimodular near-triple with the far integer antipode of the test point), the same perturbed in 1..3 "
        "coordinates by 1..1000 ulp, bisected (one coordinate moved next to a real root of the exact determinant: < 1 ulp from degeneracy, "
        "points of mixed distance), clustered, flat tetrahedra, arbitrary bit patterns (exact routines only); every case is evaluated by the "
        "real exact and adaptive routine and by the Lean model, and on the implementation additionally under all transpositions "
        "(must negate) and all 3-cycles (must keep) of the points; distinct = different op line; non-trivial = the adaptive routine's "
        "filter was undecided (fallback to exact arithmetic) or the configuration is exactly degenerate; "
        "third stream 'grid' (implementation-level oracle, never non-trivial): whole Voronoi grids (boxes [0,1]^3, [-0.5,0.5]^3, parsec scale, "
        "non-cubic, offset; regular / perturbed lattices and random generators, 8..200) built by the tree's own NewVoronoiGrid and "
        "NewVoronoiCellConstructor compiled against an auditing ExactGeometricTests class: every argument of every predicate call must lie in "
        "[1,2) and every returned sign must be the exact sign for the actual doubles; "
        "single patterns for get_mantissa (every single mantissa bit, boundaries of [1,2), other exponents, sign, inf/nan/subnormal; oracle: value = "
        "1 + mantissa/2^52 for doubles in [1,2); never non-trivial); second stream 'rescale' (never counted as non-trivial): simulation boxes (anchor with independent per-axis offsets 0, +-1e-3..1e6, "
        "dyadic / short decimal / generic, sides with independent per-axis factors, generators on lower faces and corners, next to the "
        "upper faces and inside) for which the real NewVoronoiGrid constructor is run; the stored rescaled box, tetrahedron, generators "
        "and the six wall copies of every generator must equal the Lean Float model bit for bit, the premises of the Lean in-range theorems "
        "(tetrahedron non-degenerate, box and generators between its minima and maxima) are evaluated on the real tetrahedron, every coordinate handed to the predicates must lie in [1,2), the map must be monotone per axis")
    ctx.cov["tolerance"] = "none: the observable is the returned sign, answers must be identical"
    if not ok:
        return 0
    n, impl, model, orc = ctx.correspond("predicates", h, vlib.driver("drv_c17"), ops,
                                         cmp=lambda a, b, op: a == vlib.strip_branch(b),
                                         oracle_key=oracle_key)
    # second stream, implementation-level oracle only: the precondition "coordinates in [1,2)" as the
    # real NewVoronoiGrid / NewVoronoiBox establish it for the simulation box
    boxes = gen_boxes(ctx.rng, ctx.budget(3000, 20000))
    nb, bimpl, bmodel, borc = ctx.correspond("rescale", h, vlib.driver("drv_c17"), boxes, oracle_key=oracle_key)
    ctx.count(len(boxes))
    ctx.cov["rescale_boxes"] = len(boxes)
    ctx.cov["rescale_boxes_failing_oracle"] = len(borc)
    ctx.cov["rescale_bit_exact_rate"] = sum(1 for x, y in zip(bimpl, bmodel) if x == y) / max(1, len(boxes))
    for b, il in zip(boxes, bimpl):
        ctx.distinct(b, nontrivial=False)
    if boxes and bimpl:
        ctx.sample({"family": "rescale", "op": boxes[min(7, len(boxes) - 1)], "impl": bimpl[min(7, len(bimpl) - 1)]})
    run_grids(ctx, h)
    same = 0
    fam = {}
    for op, cat, il, ml in zip(ops, cats, impl, model):
        ctx.count()
        if il == vlib.strip_branch(ml):
            same += 1
        kind = op.split(" ", 1)[0]
        br = ml.split(" #")[1] if " #" in ml else "exact-only"
        if kind in ("o", "i"):
            ctx.branch(kind + ":" + br)
        elif kind in ("oe", "ie"):
            ctx.branch(kind + ":sign" + ml.split()[-1])
        elif kind == "m":
            b = int(op.split()[1])
            ctx.branch("m:in[1,2)" if (b >> 52) == 0x3FF else "m:other-exponent-or-sign")
        f = fam.setdefault(cat, {"cases": 0, "fallback": 0})
        f["cases"] += 1
        if br.startswith("fallback"):
            f["fallback"] += 1
        ctx.distinct(op, nontrivial=kind != "m" and (br.startswith("fallback") or ml.split()[1:2] == ["0"]))
    ctx.cov["bit_exact_rate"] = same / max(1, len(ops))
    ctx.cov["families"] = fam
    hist = ctx.cov["branch_histogram"]
    dec = sum(v for k, v in hist.items() if ":filter-" in k)
    fb = sum(v for k, v in hist.items() if ":fallback-" in k)
    ctx.cov["filter_decided"] = dec
    ctx.cov["fell_back_to_exact"] = fb
    missing = [b for b in ALL_BRANCHES if hist.get(b, 0) == 0]
    ctx.cov["branches_never_taken"] = missing
    if missing:
        ctx.notes.append("coverage gate: model branches never taken in this run: " + ", ".join(missing))
    for want in ("o:perturbed-mixed", "i:perturbed-big", "o:coplanar-big", "i:cospherical-lattice"):
        for op, cat, il in zip(ops, cats, impl):
            if cat == want:
                ctx.sample({"family": cat, "op": op, "impl": il})
                break
    return 0


def replay(ctx, path):
    import json
    obj = json.load(open(path))
    if obj.get("stream") == "grid" and obj.get("ops"):
        h = vlib.build_harness("c17")
        rc, out, err = vlib.run_exe(h, "\n".join(obj["ops"]) + "\n")
        ans, orc = vlib.split_oracle(out)
        print("ops:\n  " + "\n  ".join(o[:200] + (" ..." if len(o) > 200 else "") for o in obj["ops"]))
        print("implementation (rc=%d):\n  %s" % (rc, "\n  ".join(ans)))
        if orc:
            print("property oracle on the implementation:\n  " + "\n  ".join(orc))
        bad = bool(orc) or rc != 0
        print("REPRODUCED" if bad else "not reproduced")
        return 1 if bad else 0
    return vlib.generic_replay(ctx, path, "c17", "drv_c17")


MANIFEST = dict(
    category="proof",
    text="Lean theorems for all inputs: orient3d_exact / insphere_exact compute the 3x3 / lifted 4x4 determinant of the "
         "coordinate differences (also = Mathlib's Matrix.det, and = the homogeneous 4x4 / 5x5 determinant of the points); "
         "every permutation of the points multiplies the value by its signature (orient_perm, insphere_perm, plus the generating "
         "transpositions); no intermediate exceeds 2^162 / 2^272, so the 256- / 278-bit Boost integers never truncate "
         "(orient_fits_256, insphere_fits_278: fixed-width evaluation = unbounded evaluation); filter_sound / insphere_filter_sound: "
         "for EVERY rounding function with relative error <= 2^-53 applied after every operation, a non-zero answer of the "
         "floating-point filter is the exact sign (running error analysis: 8 resp. 16 roundings against the 1e-10 permanent bound), "
         "hence orient3d_adaptive / insphere_adaptive = exact sign for all coordinates in [1,2) (orient_adaptive_exact, "
         "insphere_adaptive_exact).  Model tied to ExactGeometricTests.hpp by running the same Lean definitions (Float filter, "
         "fixed-width exact routine) against the real routines on random, exactly degenerate and 1..1000-ulp perturbed "
         "configurations: returned signs identical; property oracle (adaptive = exact, transposition negates, 3-cycle keeps) "
         "evaluated on the implementation.  The precondition 'coordinates in [1,2)' is checked on the real NewVoronoiGrid / "
         "NewVoronoiBox rescaling for generated simulation boxes (rescale_in_range / rescale_box_in_range in real arithmetic; the rounded "
         "evaluation by bit-exact comparison with the Lean Float model of the same formulas plus range and monotonicity oracle).",
    note="Trusted: Lean kernel + 3 standard axioms; hand model of ExactGeometricTests.hpp; IEEE arithmetic abstracted by the "
         "standard model |fl x - x| <= 2^-53 |x| (no underflow possible for coordinates in [1,2)); negation/abs exact; Boost's "
         "unchecked fixed-width integers modelled as magnitude truncation; the branch taken inside the real adaptive routine is "
         "not observable (only the returned sign is), the branch histogram comes from the bit-identical Lean Float evaluation; that the "
         "rounded rescaling of NewVoronoiGrid / NewVoronoiBox stays inside [1,2) is checked on generated boxes, proved only in real arithmetic.",
    technique="Lean 4: ring identities, Matrix.det_permute, operation-by-operation magnitude tracking, running "
              "floating-point error analysis over an abstract rounding function + exact differential correspondence")
