"""C13 — the random stream is RANLUX (ranlxd2); same seed, same stream (DESIGN §6 C13)."""
import os
import vlib

M31 = 2 ** 31


def eff(seed):
    """the seed the generator really uses: 0 -> 1, then the low 31 bits (two's complement)"""
    if seed == 0:
        seed = 1
    return seed % M31


def history(rng, seed, ndraws, dense, bulk):
    """ops for one generator life: `ndraws` single draws (each compared bit for bit), a
    save/restore after every draw of the first `dense` draws (covers every pair (read index,
    refill index), i.e. every position relative to the 12-value refill) and at random later,
    and `bulk` further draws compared through `skip` lines (hash, min, max of the bit patterns)."""
    ops = ["seed %d" % seed]
    if rng.random() < 0.5:
        ops.append("restore")          # restore before the first draw
    for i in range(ndraws):
        ops.append("next")
        if i < dense or rng.random() < 0.002:
            ops.append("restore")
        if rng.random() < 0.001:
            ops.append("dump")
    left = bulk
    while left > 0:
        k = min(left, rng.choice([1, 11, 12, 13, 397, rng.randint(1, 5000), rng.randint(1, 50000)]))
        ops.append("skip %d" % k)
        left -= k
        r = rng.random()
        if r < 0.5:
            ops.append("restore")
        for _ in range(rng.choice([0, 1, 2, 13])):
            ops.append("next")
    ops.append("dump")
    return ops


B48 = 2 ** 48


def directed_state(rng):
    """a well-formed generator state (entries in [0,2^48), carry 0/1, jr = ir_old + 7 mod 12)
    built from few distinct values so that exact ties (difference 0 or -1 before the borrow
    test), zeros and the maximum 2^48-1 occur in almost every refill; given to the real class
    through a restart file"""
    r = rng.randrange(B48)
    pool = [0, 0, 1, 2, B48 - 1, B48 - 2, r, (B48 - r) % B48, (r + 1) % B48, 2 ** 47]
    kind = rng.choice(["zero", "max", "equal", "pool", "pool", "pool", "two"])
    if kind == "zero":
        x = [0] * 12
    elif kind == "max":
        x = [B48 - 1] * 12
    elif kind == "equal":
        x = [r] * 12
    elif kind == "two":
        a, b = rng.choice(pool), rng.choice(pool)
        x = [rng.choice([a, b]) for _ in range(12)]
    else:
        x = [rng.choice(pool) for _ in range(12)]
    c = rng.choice([0, 1])
    io = rng.randrange(12)
    ir = rng.choice([io, (io + 11) % 12, rng.randrange(12)])
    ops = ["state " + " ".join(map(str, x)) + " %d %d %d %d 397" % (c, ir, (io + 7) % 12, io)]
    for i in range(rng.choice([13, 26, 60])):
        ops.append("next")
        if rng.random() < 0.05:
            ops.append("restore")
    return ops, kind


def split_case(rng):
    """one input of the DistributedPhotonSource constructor: N packets, normalised weights
    (1:2:4, equal, random; 1 to 60 sources), 1-4 subgrid copies per source; most leave leftovers"""
    kind = rng.choice(["124", "124", "equal", "random", "random", "many", "single"])
    if kind == "124":
        a = [1.0, 2.0, 4.0][:rng.choice([2, 3])]
    elif kind == "equal":
        a = [1.0] * rng.randint(2, 9)
    elif kind == "random":
        a = [rng.random() + 0.05 for _ in range(rng.randint(2, 8))]
    elif kind == "many":
        a = [rng.random() + 0.05 for _ in range(rng.randint(20, 60))]
    else:
        a = [1.0]
    tot = sum(a)
    w = [x / tot for x in a]
    N = rng.choice([7, 10, 100, 1000, 12345, 10 ** 6, rng.randint(len(a) * 4, 10 ** 5)])
    N = max(N, 8 * len(a))
    if sum(int(float(N) * x) for x in w) > N:
        return None
    cop = [rng.choice([1, 1, 1, 2, 3, 4]) for _ in a]
    return "split %d " % N + " ".join("%d:%d" % (vlib.f2bits(x), c) for x, c in zip(w, cop))


def run(ctx):
    _run_generator(ctx)
    snapshot_repro(ctx)


def _run_generator(ctx):
    ctx.level = "proof"
    ctx.assumptions += [
        "IEEE-754 binary64 arithmetic: sums/differences whose exact result is an integer multiple of 2^-48 of magnitude < 2^49 * 2^-48 are computed exactly (theorem doubles_exact shows every operation of the generator is of this kind, for every rounding function that is exact on that range)",
        "int_fast32_t / uint_fast32_t are the 64 bit types of this platform; seed & 0x7FFFFFFF is the non-negative remainder mod 2^31",
        "bulk draws (skip lines) are compared through a 64 bit polynomial hash of the bit patterns plus minimum and maximum; single draws (next lines) bit for bit",
        "snapshot reproducibility of whole runs (two real 1-thread runs byte-identical) is exercised as a replayable experiment, not proved",
    ]
    ok = ctx.obligations("CMacVerif.Props.C13", ["drv_c13"])
    h = vlib.build_harness("c13")
    rng = ctx.rng
    fixed = [0, 1, 2, 42, M31 - 1]
    rnd = [rng.randrange(1, M31) for _ in range(ctx.budget(3, 8))]
    outside = [-1, M31, M31 + 5, -rng.randrange(1, 2 ** 40), rng.randrange(M31, 2 ** 62)]
    seeds = fixed + rnd + outside
    ndraws = ctx.budget(20000, 40000)
    total_bulk = ctx.budget(3 * 10 ** 5, 10 ** 7)
    ops = vlib.corpus_ops("C13")
    hist_of = []
    for n, s in enumerate(seeds):
        dense = 160 if n < 7 else 30
        bulk = total_bulk // len(seeds)
        o = history(rng, s, ndraws, dense, bulk)
        hist_of.append((s, len(ops), len(ops) + len(o)))
        ops += o
    # directed states: ties, zeros, maxima (random seeds hit an exact tie with probability 2^-48)
    nstates = ctx.budget(400, 20000)
    ops.append("seed 42")
    for _ in range(nstates):
        o, kind = directed_state(rng)
        ops += o
    # the consumer of a locally constructed generator: photon packet split, constructed three
    # times per line in the harness process (the split must not depend on earlier constructions)
    nsplit = ctx.budget(300, 20000)
    k = 0
    while k < nsplit:
        o = split_case(rng)
        if o:
            ops.append(o)
            k += 1
    # different seeds -> different streams (oracle on the implementation, answer compared too)
    npairs = ctx.budget(300, 20000)
    pairs = [(1, 2), (0, 2), (M31 - 1, 1), (M31 - 1, M31 - 2), (42, 43), (1, M31 // 2), (1, 1 + 2 ** 30)]
    while len(pairs) < npairs:
        a = rng.randrange(0, M31)
        b = rng.choice([a + 1, a ^ (1 << rng.randrange(31)), rng.randrange(0, M31)])
        if eff(a) != eff(b):
            pairs.append((a, b))
    ops.append("seed 42")
    ops += ["differ %d %d" % p for p in pairs]
    ctx.cov["rule"] = ("one case = one compared answer line (a draw, a hashed run of draws, a state after seeding / dump / restore, or a seed pair); "
                       "seeds {0,1,2,42,2^31-1} + random in [1,2^31) + values outside the 31 bit range; directed well-formed states with exact ties/zeros/maxima loaded through a restart file; save/restore after every one of the first 160 draws "
                       "(all 144 pairs of read index and refill index) and at random later; distinct = (seed, op index) ; non-trivial = the draw crossed a refill or followed a restore")
    if not ok:
        return 1
    n, impl, model, orc = ctx.correspond("ranlux", h, vlib.driver("drv_c13"), ops,
                                         cmp=lambda a, b, op: a == vlib.strip_branch(b),
                                         group_start=lambda op: op.split()[0] in ("seed", "state", "split", "differ"))
    draws = 0
    exact = 0
    seed = None
    after_restore = False
    pos = {}
    for i, (op, ml) in enumerate(zip(ops, model)):
        a = impl[i] if i < len(impl) else None
        if a == vlib.strip_branch(ml):
            exact += 1
        ctx.count()
        if op.startswith("seed"):
            seed = op
            ctx.branch("seed")
            ctx.distinct((seed, 0))
        elif op == "next":
            draws += 1
            tag = ml.split(" #")[1] if " #" in ml else "?"
            if "+" in tag:
                tag, ext = tag.split("+")
                ctx.branch("output-" + ext)
            ctx.branch(tag)
            if after_restore:
                ctx.branch("next-after-restore-" + tag.replace("refill-ir", "refill@"))
            ctx.distinct((seed, i), nontrivial=(tag != "plain" or after_restore))
            after_restore = False
        elif op.startswith("skip"):
            draws += int(op.split()[1])
            ctx.branch("skip")
            ctx.distinct((seed, i))
        elif op.startswith("state"):
            seed = op
            ctx.branch("directed-state")
            ctx.distinct(op)
        elif op == "restore":
            after_restore = True
            st = ml.split()
            if len(st) >= 18:
                ctx.branch("restore")
                pos[(st[14], st[16])] = pos.get((st[14], st[16]), 0) + 1
        elif op.startswith("split"):
            ctx.branch(ml.split(" #")[1] if " #" in ml else "split")
            ctx.distinct(op)
        elif op.startswith("differ"):
            ctx.branch("differ-first-%s" % ml.split()[1])
            ctx.distinct(op)
        else:
            ctx.branch(op.split()[0])
    ctx.cov["draws_compared"] = draws
    ctx.cov["bit_exact_lines"] = "%d/%d" % (exact, len(ops))
    ctx.cov["tolerance"] = "none (64 bit patterns identical)"
    ctx.cov["restore_positions_(ir,ir_old)_covered"] = "%d/144" % len(pos)
    ctx.cov["seeds"] = seeds
    need = ["plain"] + ["refill-ir%d" % i for i in range(12)] + ["restore", "seed", "differ-first-0", "directed-state", "output-zero", "output-max", "split-leftover", "split-no-leftover"]
    missing = [b for b in need if b not in ctx.cov["branch_histogram"]]
    if len(pos) < 144:
        missing.append("restore at %d (ir, ir_old) pairs" % (144 - len(pos)))
    if missing:
        ctx.notes.append("coverage gate: not reached: " + ", ".join(missing))
        ctx.broken_obligation("coverage gate of the correspondence not met (insufficient evidence): " + ", ".join(missing))
    j = 0
    for s, a, b in hist_of[:3]:
        ctx.sample({"ops": ops[a:a + 4], "impl": impl[a:a + 4]})
    return 0


ION_PARAM = """SimulationBox:
  anchor: [-5. pc, -5. pc, -5. pc]
  sides: [10. pc, 10. pc, 10. pc]
  periodicity: [false, false, false]
DensityGrid:
  type: Cartesian
  number of cells: [8, 8, 8]
DensitySubGridCreator:
  number of subgrids: [%d, %d, %d]
DensityFunction:
  type: Homogeneous
  density: 100. cm^-3
  temperature: 8000. K
Abundances:
  helium: %s
TemperatureCalculator:
  do temperature calculation: true
PhotonSourceDistribution:
  type: SingleStar
  position: [0. pc, 0. pc, 0. pc]
  luminosity: 4.26e49 s^-1
PhotonSourceSpectrum:
  type: Planck
  temperature: 40000. K
TaskBasedIonizationSimulation:
  number of photons: %d
  number of iterations: %d
  random seed: %d
  diffuse field: %s
DensityGridWriter:
  type: AsciiFile
  prefix: snap
"""


def snapshot_repro(ctx):
    """Replayable experiment, NOT a theorem: two real single-thread task-based photoionization
    runs of the same parameter file write byte-identical snapshots (and another seed does not)."""
    import hashlib, os, shutil, tempfile
    import simrun
    binary = vlib.full_binary()
    configs = [((2, 2, 2), "0.1", 5000, 3, 42, "true")]
    if ctx.thorough:
        configs += [((1, 1, 1), "0.", 3001, 2, 1, "false"), ((2, 1, 4), "0.1", 4999, 2, 2147483647, "true"), ((4, 2, 2), "0.05", 2000, 4, 5, "false")]
    done = []
    for (sub, he, nph, nit, seed, diffuse) in configs:
        digests = []
        for rep, sd in ((0, seed), (1, seed), (2, (seed % 2147483000) + 7)):   # a different effective seed (seed 0 = seed 1 by design)
            d = tempfile.mkdtemp(prefix="verif_c13_")
            param = ION_PARAM % (sub[0], sub[1], sub[2], he, nph, nit, sd, diffuse)
            # the two runs with the same seed get DIFFERENT heap fill patterns (glibc MALLOC_PERTURB_):
            # a single-thread run must depend on the seed and the input only, not on what the
            # allocator left in fresh memory
            res = simrun.run_sim(binary, param, ["--task-based"], threads=1, timeout=300, trace=False, workdir=d,
                                 env={"MALLOC_PERTURB_": ("85", "170", "51")[rep]})
            h = hashlib.sha256()
            names = sorted(f for f in os.listdir(d) if f.startswith("snap"))
            for f in names:
                h.update(f.encode()); h.update(open(os.path.join(d, f), "rb").read())
            shutil.rmtree(d, ignore_errors=True)
            if res["rc"] != 0 or res["timed_out"] or not names:
                ctx.violation("snapshot:run-failed", "task-based photoionization run (heap fill pattern MALLOC_PERTURB_=%s) failed (rc %s, %d snapshots): %s" % (("85", "170", "51")[rep], res["rc"], len(names), res["log"][-300:]),
                              {"param": param, "cmd": "CMacIonize --params run.param --task-based --threads 1"})
                break
            digests.append(h.hexdigest())
        else:
            ctx.count()
            ctx.branch("snapshot-repro-run")
            if digests[0] != digests[1]:
                ctx.violation("snapshot:not-reproducible", "two single-thread runs of the same parameter file (seed %d) wrote different snapshots" % seed,
                              {"param": ION_PARAM % (sub[0], sub[1], sub[2], he, nph, nit, seed, diffuse), "cmd": "CMacIonize --params run.param --task-based --threads 1 (twice; compare snap*.txt)"})
            if digests[0] == digests[2]:
                ctx.violation("snapshot:seed-ignored", "seeds %d and %d gave byte-identical snapshots" % (seed, (seed % 2147483000) + 7),
                              {"param": ION_PARAM % (sub[0], sub[1], sub[2], he, nph, nit, seed, diffuse)})
            done.append({"subgrids": sub, "seed": seed, "sha256": digests[0][:16]})
    ctx.cov["snapshot_reproducibility_experiment"] = done


def replay(ctx, path):
    return vlib.generic_replay(ctx, path, "c13", "drv_c13")


MANIFEST = dict(
    category="proof",
    text="Lean theorems about an integer model (units of 2^-48) of RandomGenerator.hpp, for every seed, every stream position and every save/restore point: the unrolled refill (three loops, 11-fold unrolled block) is 397 single steps of the textbook subtract-with-borrow recurrence (unrolled_refines_single) and the delivered stream is RANLUX with luxury 397 of the seed words (stream_is_spec); every reachable state has entries in [0,2^48) and carry in {0,1}, so every output lies in [0,1) (state_bounded, next_lt_one); all double operations are exact for every rounding that is exact below 2^49 (doubles_exact); seed 0 = seed 1; seeding injective on [1,2^31) through the first 31 generated bits (seed_injective); restore(dump s) = s and the stream continues identically; different effective seeds give streams that differ within the first 24 draws (streams_differ, via the linear-congruential form of the recurrence modulo b^12-b^5+1, b^397 not congruent to +-1, and the shift-register structure of the seed words). The consumer of a locally constructed generator, the photon packet split of DistributedPhotonSource, is modelled too: it sums to N and is a function of (N, quotas, copies) and of the stream of a default-seeded generator read from position 0 in every construction (split_sum, split_fresh_generator); the harness constructs the real class three times per input in one process and requires identical splits equal to the model's. Honest negatives, also proved: the single step is NOT injective on raw states (injective once the incoming carry is known), and exactly 0 is not excluded by the invariant (an all-zero state returns 0 forever), so -log(u) can be +inf in principle but never <= 0. Model tied to the code by bit-exact differential runs (draws, states, restart round trips through the real RestartWriter/RestartReader) plus the property oracle on the implementation.",
    note="Trusted: Lean kernel + 3 standard axioms; hand model of RandomGenerator.hpp; IEEE exactness of integer-valued double sums below 2^53; 64-bit int_fast32_t/uint_fast32_t. Not a theorem: byte-identical snapshots of two real single-thread runs (depends on everything outside the generator; run separately as a replayable experiment). Not decided: whether a seeded stream ever returns exactly 0.",
    technique="Lean 4 proof (state invariants, induction over the step count, linear-congruential representation of subtract-with-borrow) + exact differential correspondence")
