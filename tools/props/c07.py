"""C07 — hydro task graph: every task once, in order, conflict-free, always finishes (DESIGN §6 C07)."""
import itertools
import json
import vlib
import simrun


def layouts(ctx):
    pers = list(itertools.product([False, True], repeat=3))
    if ctx.thorough:
        ls = [(l, p) for l in itertools.product([1, 2, 3], repeat=3) for p in pers]
        ls += [((4, 1, 2), (True, False, True)), ((1, 1, 5), (False, False, True)), ((4, 4, 1), (True, True, True))]
        return ls
    base = [((1, 1, 1), (True, True, True)), ((1, 1, 1), (False, False, False)), ((1, 2, 2), (True, True, True)),
            ((2, 2, 2), (True, True, True)), ((2, 1, 3), (True, False, True)), ((3, 3, 1), (False, True, True)),
            ((2, 2, 2), (False, False, False)), ((3, 2, 1), (True, True, False))]
    extra = [(tuple(ctx.rng.choice([1, 2, 3]) for _ in range(3)), ctx.rng.choice(pers)) for _ in range(6)]
    return base + extra


def parse_trace(lines):
    """-> (subs {g: ngbs[6]}, tasks {itask: dict}, slots {(g,slot): itask or None}, steps [ {S, C{itask:cnt}, events[], Z} ])"""
    subs, tasks, slots, steps = {}, {}, {}, []
    cur = None
    for l in lines:
        w = l.split()
        if len(w) < 2:
            continue
        k = w[1]
        v = [int(x) for x in w[2:]]
        if k == "G":
            subs[v[0]] = v[1:7]
        elif k == "T":
            if v[2] == -1:
                slots[(v[0], v[1])] = None
            else:
                g, slot, itask, typ, sub, l0, l1, nch = v[:8]
                tasks[itask] = dict(g=g, slot=slot, type=typ, sub=sub, locks=[x for x in (l0, l1) if x >= 0], children=v[8:8 + nch])
                slots[(g, slot)] = itask
        elif k == "S":
            cur = dict(S=v[0], C={}, events=[], Z=None)
            steps.append(cur)
        elif k == "C" and cur is not None:
            cur["C"][v[0]] = v[1]
        elif k in ("A", "F", "R", "E") and cur is not None:
            cur["events"].append((k, v))
        elif k == "Z" and cur is not None:
            cur["Z"] = v[0]
    return subs, tasks, slots, steps


def trace_oracles(E, subs, tasks, steps):
    """the property itself evaluated on the implementation's own dump and event log"""
    bad = []
    outside = E["NEIGHBOUR_OUTSIDE"]
    # in-degree from the real child arrays = reset counters
    indeg = {t: 0 for t in tasks}
    for t, d in tasks.items():
        if len(d["children"]) > 7:
            bad.append("task %d has %d children (> 7)" % (t, len(d["children"])))
        for c in d["children"]:
            if c not in tasks:
                bad.append("task %d has a child %d that does not exist" % (t, c))
            else:
                indeg[c] += 1
    for si, st in enumerate(steps):
        for t, cnt in st["C"].items():
            if indeg.get(t) != cnt:
                bad.append("reset counter of task %d is %d but %d parent edges point to it" % (t, cnt, indeg.get(t, -1)))
        started, finished, running = {}, {}, {}
        done_parents = {t: 0 for t in tasks}
        for (k, v) in st["events"]:
            if k == "A":
                t = v[1]
                started[t] = started.get(t, 0) + 1
                if done_parents.get(t, 0) != indeg.get(t, 0):
                    bad.append("step %d: task %d started after %d of its %d parent edges were released" % (si, t, done_parents.get(t, 0), indeg.get(t, 0)))
                foot = set([tasks[t]["sub"]] + tasks[t]["locks"])
                if tasks[t]["type"] in (E["TASKTYPE_GRADIENTSWEEP_EXTERNAL_NEIGHBOUR"], E["TASKTYPE_FLUXSWEEP_EXTERNAL_NEIGHBOUR"]):
                    pass
                for o, of in running.items():
                    if foot & of:
                        bad.append("step %d: tasks %d and %d ran at the same time on subgrid(s) %s" % (si, t, o, sorted(foot & of)))
                running[t] = foot
            elif k == "F":
                t = v[1]
                finished[t] = finished.get(t, 0) + 1
                running.pop(t, None)
            elif k == "R":
                done_parents[v[2]] = done_parents.get(v[2], 0) + 1
        for t in tasks:
            if started.get(t, 0) != 1 or finished.get(t, 0) != 1:
                bad.append("step %d: task %d (subgrid %d slot %d) executed %d times" % (si, t, tasks[t]["g"], tasks[t]["slot"], finished.get(t, 0)))
        if st["Z"] != 0:
            bad.append("step %d ended with number_of_tasks = %r" % (si, st["Z"]))
    return bad


def model_ops(E, layout, per, subs, tasks, slots, steps, serial=True):
    names = {v: k[len("TASKTYPE_"):] for k, v in E.items() if k.startswith("TASKTYPE_")}
    outside = E["NEIGHBOUR_OUTSIDE"]
    ops, exp = [], []
    ops.append("layout %d %d %d %d %d %d" % (layout + tuple(int(p) for p in per)))
    exp.append("layout %d" % len(tasks))
    for g in sorted(subs):
        ops.append("sub %d" % g)
        exp.append("sub %d %s" % (g, " ".join(str(-1 if x == outside else x) for x in subs[g])))
    key = lambda t: (tasks[t]["g"], tasks[t]["slot"])
    for (g, slot) in sorted(slots):
        it = slots[(g, slot)]
        ops.append("task %d %d" % (g, slot))
        if it is None:
            exp.append("task %d %d none" % (g, slot))
        else:
            d = tasks[it]
            ch = sorted(key(c) for c in d["children"] if c in tasks)
            cnt = steps[0]["C"].get(it, -1) if steps else -1
            exp.append("task %d %d %s locks=[%s] children=[%s] reset=%d parents=%d" % (
                g, slot, names.get(d["type"], "?"), " ".join(str(x) for x in d["locks"]),   # in the order set_dependency / set_extra_dependency
                " ".join("%d:%d" % c for c in ch), cnt, cnt))
            ops.append("order %d %d %s" % (g, slot, " ".join("%d %d" % key(c) for c in d["children"] if c in tasks)))
            exp.append("order perm")
    for st in steps:
        ops.append("start")
        exp.append("start %d" % st["S"])
        for (k, v) in st["events"]:
            if k in ("A", "F"):
                ops.append("%s %d %d" % ((k,) + key(v[1])))
                exp.append("%s ok" % k)
            elif k == "R":
                ops.append("R %d %d %d %d" % (key(v[1]) + key(v[2])))
                exp.append("R ok")
            elif k == "E":
                ops.append("E %d %d" % key(v[1]))
                exp.append("E ok %d" % v[2] if serial else "E ok")
        ops.append("end")
        exp.append("end %s all-done-once" % st["Z"])
    return ops, exp


def strip(l):
    l = l.split(" #")[0]
    if l.startswith("R ok"):
        return "R ok"
    return l


def same(model_line, expected):
    """expected 'E ok' (no count): the run was not serialised, the counter value read for the log is not the value of the retire step"""
    if expected == "E ok" and model_line.startswith("E ok "):
        return True
    return model_line == expected


def run(ctx):
    ctx.level = "proof"
    ctx.assumptions += [
        "a task's actions (pop with locks, sweep + unlock, each child release, retire) are atomic steps of an interleaving semantics. The lock part of this is a THEOREM of C08 at the level of single AtomicValue operations (pop_is_atomic_acquire: each successful pop linearises at the CAS taking the task's last lock, the projected label sequence is enabled; acquire_guard / running_tasks_conflict_free: the guard of `acquire` holds; failed pops are stuttering steps; hydro_counter_zero). Still assumed: a sweep only touches the subgrids of its lock set (checked by C04's per-call address log), sequential consistency",
        "the model merges `add_task(child)` and `number_of_tasks.pre_increment()` into one step; the real code enqueues first, so the counter can transiently read 0 while the releasing thread still has children to hand out: other threads may leave the loop early, the releasing thread completes the step alone (C08: hydro_counter_exact / hydro_counter_zero state what holds exactly; exactly-once, ordering, mutual exclusion and termination are unaffected)",
        "the replay uses the implementation's child order after checking it is a permutation of the model's child list (well-formedness of the graph only depends on multiplicities)",
        "serialised runs: trace stamps are taken inside a global mutex (hook H3), so the log order is a valid order of the logged actions. Non-serialised runs (CMAC_VERIF_NOSERIAL=1): only single log lines are atomic; the log order is still a valid order because A is logged after the pop, F before the unlock and R before the release (so a child's A always follows all its parents' R; two conflicting tasks never overlap in the log unless they overlapped in the run); the value in E is not compared there",
    ]
    ok = ctx.obligations("CMacVerif.Props.C07", ["drv_c07"])
    E = simrun.enums()
    binary = vlib.full_binary()
    ctx.cov["rule"] = ("layouts nx x ny x nz in 1..3 (thorough: all 27 x 8 periodicities + 3 larger; quick: 14 incl. 1 and 2 subgrids on periodic axes) x threads in {1,2,4,8}; "
                       "real 2-step pure-hydro runs; table dump and every worker event replayed through the Lean model; plus 10 (thorough: 40) NON-serialised 4-step runs with 4/8/16 threads under seeded scheduling jitter (hook H3c + H1 yield points), same replay and oracles; distinct = (layout, periodicity, threads, jitter); non-trivial = more than one subgrid or a periodic axis")
    all_ops, all_exp, groups = [], [], []
    from props import c10
    jlib = c10.jitter_lib()
    runs = []
    for (layout, per) in layouts(ctx):
        runs.append((layout, per, ctx.rng.choice([1, 2, 4, 8]), None))
    # non-serialised runs (CMAC_VERIF_NOSERIAL=1: the trace regions do not take the global mutex, so a
    # "decrement, then look again" or "test, then act" slip in the worker loop is not hidden by the hook) under
    # seeded scheduling jitter at the H1 yield points of AtomicValue
    nj = 40 if ctx.thorough else 10
    for _ in range(nj):
        layout = ctx.rng.choice([(2, 2, 2), (3, 2, 2), (2, 3, 3), (1, 2, 2), (3, 3, 3)])
        per = ctx.rng.choice([(True, True, True), (False, False, False), (True, False, True)])
        jitter = "%d:%d:%d:%d:%d" % (ctx.rng.randrange(1, 10 ** 6), ctx.rng.choice([300, 600, 900]), ctx.rng.choice([20, 60, 150]), ctx.rng.choice([2, 5, 20]), ctx.rng.choice([5, 30, 100]))
        runs.append((layout, per, ctx.rng.choice([4, 8, 16]), jitter))
    stop_serial = False
    for (layout, per, threads, jitter) in runs:
        if stop_serial:
            break
        param = simrun.hydro_param(layout, per, cells_per_subgrid=(2, 2, 2), total_time=0.002)
        env = {} if jitter is None else {"CMAC_VERIF_NOSERIAL": "1", "LD_PRELOAD": jlib, "CMAC_VERIF_JITTER10": jitter}
        res = simrun.run_sim(binary, param, ["--task-based-rhd", "--number-of-steps", "2" if jitter is None else "4"], threads=threads, timeout=60, env=env)
        if res["timed_out"]:
            # slow machine or endless step?  One more try with four times the limit decides.
            ctx.branch("time-limit-retries")
            res = simrun.run_sim(binary, param, ["--task-based-rhd", "--number-of-steps", "2" if jitter is None else "4"], threads=threads, timeout=240, env=env)
        ctx.count()
        ctx.distinct((layout, per, threads, jitter), nontrivial=(layout != (1, 1, 1) or any(per)))
        ctx.branch("serialised-trace-runs" if jitter is None else "non-serialised-jitter-runs")
        rep = {"layout": layout, "periodicity": per, "threads": threads, "param": param, "jitter": jitter,
               "cmd": ("" if jitter is None else "CMAC_VERIF_NOSERIAL=1 LD_PRELOAD=libc10_jitter.so CMAC_VERIF_JITTER10=%s " % jitter)
                      + "CMacIonize --params run.param --task-based-rhd --number-of-steps %d --threads %d" % (2 if jitter is None else 4, threads)}
        if res["timed_out"]:
            ctx.violation("hydro:step-never-finishes", "the hydro step of layout %s periodicity %s did not finish within 60 s nor, tried again, within 240 s (threads=%d); last log line: %s"
                          % (layout, per, threads, res["log"].strip().split("\n")[-1][-200:]), rep)
            stop_serial = True   # every further layout with this defect would cost another timeout
            continue
        if res["rc"] != 0:
            ctx.violation("hydro:run-failed", "run of layout %s periodicity %s exited with status %d: %s" % (layout, per, res["rc"], res["log"][-400:]), rep)
            continue
        subs, tasks, slots, steps = parse_trace(res["trace"])
        if not steps or not tasks:
            ctx.broken_obligation("no hydro trace produced for layout %s (hook H3 missing?)" % (layout,), res["log"][-500:])
            continue
        for b in trace_oracles(E, subs, tasks, steps)[:3]:
            kind = ("executed" if "executed" in b else "same-time" if "same time" in b else "started-early" if "started after" in b
                    else "reset-counter" if "reset counter" in b else "other")
            ctx.violation("hydro:" + kind, "layout %s periodicity %s threads %d: %s" % (layout, per, threads, b), dict(rep, trace=res["trace"][:4000]))
        ops, exp = model_ops(E, layout, per, subs, tasks, slots, steps, serial=jitter is None)
        groups.append((len(all_ops), len(ops), rep))
        all_ops += ops
        all_exp += exp
        for st in steps:
            ctx.branch("steps")
            for (k, v) in st["events"]:
                ctx.branch("event-" + k)
        if len(ctx.cov["samples"]) < 3:
            ctx.sample({"layout": layout, "periodicity": per, "threads": threads, "tasks": len(tasks), "events_per_step": len(steps[0]["events"]), "trace_head": res["trace"][:6]})
    if ok and all_ops:
        rc, out, err = vlib.run_exe(vlib.driver("drv_c07"), "\n".join(all_ops) + "\n")
        model = [l for l in out.split("\n") if l]
        st = ctx.cov["correspondence_streams"].setdefault("hydro-graph", {"lines": 0, "mismatches": 0})
        st["lines"] += len(all_ops)
        for (start, n, rep) in groups:
            for i in range(start, start + n):
                m = strip(model[i]) if i < len(model) else "<missing>"
                if not same(m, all_exp[i]):
                    st["mismatches"] += 1
                    op = all_ops[i]
                    if op[0] in "AFRE" and "DISABLED" in m or "WRONG-CHILD" in m:
                        ctx.violation("hydro:event-not-allowed", "layout %s periodicity %s: the implementation performed '%s' which the task-graph protocol does not allow there (%s)"
                                      % (rep["layout"], rep["periodicity"], op, m), dict(rep, ops=all_ops[start:i + 1]))
                    else:
                        ctx.broken_obligation("correspondence stream 'hydro-graph': layout %s periodicity %s op %r: implementation %r, Lean model %r"
                                              % (rep["layout"], rep["periodicity"], op, all_exp[i], m),
                                              json.dumps(dict(rep, ops=all_ops[start:i + 1], impl=all_exp[i], model=m), default=str)[:3000])
                    break


def replay(ctx, path):
    obj = json.load(open(path))
    print(json.dumps({k: v for k, v in obj.items() if k not in ("trace", "ops", "param")}, indent=1))
    if "param" in obj:
        binary = vlib.full_binary()
        env, nsteps = {}, "2"
        if obj.get("jitter"):
            from props import c10
            env, nsteps = {"CMAC_VERIF_NOSERIAL": "1", "LD_PRELOAD": c10.jitter_lib(), "CMAC_VERIF_JITTER10": obj["jitter"]}, "4"
        res = simrun.run_sim(binary, obj["param"], ["--task-based-rhd", "--number-of-steps", nsteps], threads=obj.get("threads", 1), timeout=90, env=env)
        print("re-run: rc=%s timed_out=%s" % (res["rc"], res["timed_out"]))
        if res["timed_out"] or res["rc"] != 0:
            print("REPRODUCED")
            return 1
        E = simrun.enums()
        subs, tasks, slots, steps = parse_trace(res["trace"])
        bad = trace_oracles(E, subs, tasks, steps)
        print("\n".join(bad[:10]))
        print("REPRODUCED" if bad else "not reproduced on this schedule (schedule-dependent; the recorded trace is in the replay file)")
        return 1 if bad else 0
    return 1


MANIFEST = dict(
    category="proof",
    text="Lean theorems for EVERY layout nx x ny x nz, every periodicity (incl. 1 or 2 subgrids on a periodic axis), every number of threads and every interleaving of the worker actions: the hydro task graph is a well-formed DAG (child lists = inverse of parent lists with multiplicity, reset counters = in-degrees, <= 7 children, locks cover the touched subgrids, are distinct and are taken in increasing subgrid index (hydro_lock_order; no_lockstep_cycle: with that order a round in which every waiting pair task fails on its second lock is impossible); over any well-formed graph the worker loop executes every task exactly once, never before its parents, never two tasks on one subgrid, number_of_tasks = queued+running, never stuck while > 0, strictly decreasing measure (termination), stable end. Tied to the code by the dumped task tables and by replaying every event of real multi-thread runs through the model (hook H3), plus the same statements evaluated directly on the trace.",
    note="Trusted: Lean kernel + 3 axioms; hand model of make_hydro_tasks/set_dependencies/reset_hydro_tasks/worker loop; task-level atomicity (the lock part is proved in C08: pop_is_atomic_acquire, running_tasks_conflict_free; assumed: a sweep touches only its lock set); sequentially consistent atomics; trace hook takes a global mutex; runs that do not finish in 90 s are reported as non-termination.",
    technique="Lean 4 proof (inductive invariant over arbitrary interleavings, generic over well-formed task graphs + well-formedness of the hydro graph for all layouts) + trace refinement check against the real binary")
