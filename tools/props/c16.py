"""C16 — every position maps to exactly one cell; legacy grid traversal conserves path (DESIGN §6 C16).

Streams (one op per line, the same text goes to harness/c16.cpp and to lean/Driver/C16.lean):
  morton  ax ay az sx sy sz cx cy cz          MortonKeyGenerator::get_key          (doubles as bit patterns)
  inc     rx ry rz level                      (general)ngbiterator::increase_indices
  shell   L                                   traversal from the anchor block to the end of level L
  maxrange ax ay az sx sy sz                  (general)ngbiterator::set_max_range
  range   ax ay az s                          all blocks of an s^3 bucket grid through increase_range()
"""
import os
import re
import vlib


# --------------------------------------------------------------------------- helpers

def fb(x):
    return str(vlib.f2bits(x))


def rand_box(rng):
    """anchor, sides: dyadic and non-dyadic, offset from the origin, anisotropic"""
    kind = rng.choice(["unit", "dyadic", "generic", "offset", "negative", "tiny", "huge"])
    if kind == "unit":
        a, s = [0.0] * 3, [1.0] * 3
    elif kind == "dyadic":
        a = [rng.choice([0.0, -0.5, 0.25, 2.0]) for _ in range(3)]
        s = [2.0 ** rng.randint(-3, 4) for _ in range(3)]
    elif kind == "generic":
        a = [rng.uniform(-1, 1) for _ in range(3)]
        s = [rng.uniform(0.1, 3.0) for _ in range(3)]
    elif kind == "offset":
        a = [rng.uniform(10, 1000) for _ in range(3)]
        s = [rng.uniform(0.5, 2.0) for _ in range(3)]
    elif kind == "negative":
        a = [-rng.uniform(1, 5) for _ in range(3)]
        s = [rng.uniform(1, 10) for _ in range(3)]
    elif kind == "tiny":
        a = [rng.uniform(-1e-9, 1e-9) for _ in range(3)]
        s = [rng.uniform(1e-10, 1e-8) for _ in range(3)]
    else:
        a = [rng.uniform(-1e18, 1e18) for _ in range(3)]
        s = [rng.uniform(1e17, 1e19) for _ in range(3)]
    return kind, a, s


# --------------------------------------------------------------------------- generators

def gen_morton(rng, n):
    ops = []
    for _ in range(n):
        kind, a, s = rand_box(rng)
        pk = rng.choice(["random", "lattice", "face-low", "face-high", "pow2", "corner"])
        c = []
        for i in range(3):
            if pk == "random":
                c.append(a[i] + s[i] * rng.random())
            elif pk == "lattice":      # values whose scaled coordinate is (nearly) an integer: truncation ties
                k = rng.choice([0, 1, 2, 2097150, 2097151, rng.randint(0, 2097151)])
                c.append(a[i] + s[i] * (k / 2097151.0))
            elif pk == "face-low":
                c.append(a[i] if rng.random() < 0.7 else a[i] + s[i] * rng.random())
            elif pk == "face-high":
                c.append(a[i] + s[i] if rng.random() < 0.7 else a[i] + s[i] * rng.random())
            elif pk == "pow2":
                c.append(a[i] + s[i] * 2.0 ** -rng.randint(1, 22))
            else:
                c.append(a[i] + s[i] * rng.choice([0.0, 1.0, 0.5]))
        # keep the scaled coordinate inside [0, 2^21): outside the conversion is undefined in C++
        ok = all(0.0 <= 2097151.0 * (c[i] - a[i]) / s[i] < 2097152.0 for i in range(3))
        if not ok:
            continue
        ops.append("morton " + " ".join(fb(v) for v in a + s + c))
    return ops


def gen_shells(rng, thorough):
    ops = []
    # every branch of increase_indices on states of the traversal and on arbitrary states
    for L in range(0, 5):
        for rx in range(-L, L + 1):
            for ry in range(-L, L + 1):
                for rz in range(-L, L + 1):
                    if max(abs(rx), abs(ry), abs(rz)) == L:
                        ops.append("inc %d %d %d %d" % (rx, ry, rz, L))
    for _ in range(400 if thorough else 100):
        L = rng.randint(0, 1000)
        v = [rng.choice([-L, L, 0, rng.randint(-L, L)]) for _ in range(3)]
        ops.append("inc %d %d %d %d" % (v[0], v[1], v[2], L))
    for L in range(0, 15 if thorough else 8):
        ops.append("shell %d" % L)
    return ops


def gen_maxrange(rng, thorough):
    ops = []
    smax = 7 if thorough else 5
    for s in range(1, smax + 1):          # exhaustive small cubic grids
        for ax in range(s):
            for ay in range(s):
                for az in range(s):
                    ops.append("maxrange %d %d %d %d %d %d" % (ax, ay, az, s, s, s))
    for _ in range(3000 if thorough else 400):   # larger cubic grids, anchors near symmetric / edge positions
        s = rng.randint(1, 64)
        def pick():
            return rng.choice([0, s - 1, s // 2, (s - 1) // 2, rng.randrange(s)])
        a = [pick(), pick(), pick()]
        if rng.random() < 0.3:
            a[rng.randrange(3)] = a[rng.randrange(3)]
        if rng.random() < 0.3:
            a[rng.randrange(3)] = s - 1 - a[rng.randrange(3)]
        ops.append("maxrange %d %d %d %d %d %d" % (a[0], a[1], a[2], s, s, s))
    for _ in range(600 if thorough else 100):    # non-cubic: model vs code only (never built by PointLocations)
        s = [rng.randint(1, 12) for _ in range(3)]
        a = [rng.randrange(s[i]) for i in range(3)]
        ops.append("maxrange %d %d %d %d %d %d" % (a[0], a[1], a[2], s[0], s[1], s[2]))
    return ops


def gen_range(rng, thorough):
    ops = []
    for s in range(1, (6 if thorough else 4) + 1):
        for ax in range(s):
            for ay in range(s):
                for az in range(s):
                    ops.append("range %d %d %d %d" % (ax, ay, az, s))
    for _ in range(60 if thorough else 12):
        s = rng.randint(5, 14 if thorough else 9)
        def pick():
            return rng.choice([0, s - 1, s // 2, rng.randrange(s)])
        ops.append("range %d %d %d %d" % (pick(), pick(), pick(), s))
    return ops



# ---- AMR: python keeps the set of leaves so that every refine op hits an existing leaf

def amr_key(ix, iy, iz, path):
    cell = 1
    for c in reversed(path):
        cell = cell * 8 + c
    return ((ix << 20) + (iy << 10) + iz) << 32 | cell


def amr_leaf_box(a, s, n, blk, path):
    """box of a leaf with the same floating point operations as AMRGrid / AMRGridCell"""
    sides = [s[i] / n[i] for i in range(3)]
    anchor = [a[i] + blk[i] * sides[i] for i in range(3)]
    for c in path:
        ci = [(c & 4) >> 2, (c & 2) >> 1, c & 1]
        sides = [x * 0.5 for x in sides]
        anchor = [anchor[i] + ci[i] * sides[i] for i in range(3)]
    return anchor, sides


def below(x, a, s):
    """largest double that is < a + s in exact arithmetic"""
    import math
    from fractions import Fraction as F
    top = F(a) + F(s)
    p = x
    while not F(p) < top:
        p = math.nextafter(p, -math.inf)
    return p


BLOCKS = [(1, 1, 1), (2, 1, 1), (1, 1, 4), (3, 1, 2), (3, 5, 7), (2, 2, 2), (1, 3, 1), (5, 1, 1), (6, 3, 2), (9, 1, 1)]


def gen_amr(rng, ngrids, nref, nloc, maxdepth=8):
    import math
    ops = []
    for gi in range(ngrids):
        kind, a, s = rand_box(rng)
        while kind in ("huge", "tiny"):
            kind, a, s = rand_box(rng)
        n = rng.choice(BLOCKS) if rng.random() < 0.8 else tuple(rng.randint(1, 6) for _ in range(3))
        level = rng.choice([0, 0, 1, 1, 2])
        ops.append("amr new %s %d %d %d %d" % (" ".join(fb(v) for v in a + s), n[0], n[1], n[2], level))
        leaves = []
        def all_paths(l):
            if l == 0:
                return [()]
            return [(c,) + r for c in range(8) for r in all_paths(l - 1)]
        for ix in range(n[0]):
            for iy in range(n[1]):
                for iz in range(n[2]):
                    for pth in all_paths(level):
                        leaves.append(((ix, iy, iz), pth))
        ops.append("amr enum")
        style = rng.choice(["random", "deep", "deep", "first", "last"])
        def positions(leaf):
            blk, pth = leaf
            an, sd = amr_leaf_box(a, s, n, blk, pth)
            out = []
            for _ in range(nloc):
                k = rng.choice(["inside", "inside", "lowwall", "highwall", "mid", "corner"])
                pt = []
                for i in range(3):
                    if k == "inside":
                        pt.append(an[i] + sd[i] * rng.random())
                    elif k == "lowwall":
                        pt.append(an[i] if rng.random() < 0.6 else an[i] + sd[i] * rng.random())
                    elif k == "highwall":
                        pt.append(an[i] + sd[i] if rng.random() < 0.6 else an[i] + sd[i] * rng.random())
                    elif k == "mid":
                        pt.append(an[i] + 0.5 * sd[i])
                    else:
                        pt.append(rng.choice([an[i], an[i] + sd[i]]))
                # keep inside the half-open box (exactly): the top face is pulled just inside
                pt = [max(pt[i], a[i]) for i in range(3)]
                pt = [below(pt[i], a[i], s[i]) for i in range(3)]
                out.append(pt)
            return out
        for r in range(nref):
            if style == "deep":
                cand = sorted(leaves, key=lambda l: -len(l[1]))[:8]
                leaf = rng.choice(cand)
            elif style == "first":
                leaf = leaves[0] if rng.random() < 0.7 else rng.choice(leaves)
            elif style == "last":
                leaf = leaves[-1] if rng.random() < 0.7 else rng.choice(leaves)
            else:
                leaf = rng.choice(leaves)
            if len(leaf[1]) >= maxdepth:
                leaf = rng.choice(leaves)
                if len(leaf[1]) >= maxdepth:
                    continue
            blk, pth = leaf
            ops.append("amr refine %d" % amr_key(blk[0], blk[1], blk[2], pth))
            i = leaves.index(leaf)
            leaves[i:i + 1] = [(blk, pth + (c,)) for c in range(8)]
            if rng.random() < 0.25:
                ops.append("amr enum")
            if rng.random() < 0.5:
                lf = rng.choice(leaves[i:i + 8] + [rng.choice(leaves)])
                for pt in positions(lf)[:2]:
                    ops.append("amr loc " + " ".join(fb(v) for v in pt))
                ops.append("amr next %d" % amr_key(lf[0][0], lf[0][1], lf[0][2], lf[1]))
        ops.append("amr enum")
        ops.append("amr ngbs %d %d %d" % (rng.randint(0, 1), rng.randint(0, 1), rng.randint(0, 1)))
        for _ in range(nloc):
            lf = rng.choice(leaves)
            pt = positions(lf)[0]
            ops.append("amr loc " + " ".join(fb(v) for v in pt))
            ops.append("amr key %d %s" % (rng.randint(0, 9), " ".join(fb(v) for v in pt)))
        # box faces: low faces exactly, one ulp inside the top faces
        for _ in range(3):
            pt = [rng.choice([a[i], below(a[i] + s[i], a[i], s[i]), a[i] + s[i] * rng.random()]) for i in range(3)]
            ops.append("amr loc " + " ".join(fb(v) for v in pt))
        ops.append("amr next %d" % amr_key(leaves[-1][0][0], leaves[-1][0][1], leaves[-1][0][2], leaves[-1][1]))
    return ops



# ---- Cartesian grid

def gen_cart_exact(rng, n):
    """optical depth reached EXACTLY on a cell wall / box face (dyadic geometry, unit opacity):
    the `optical_depth < 0.` vs `== 0.` branch of interact"""
    ops = []
    for _ in range(n):
        k = rng.choice([1, 2, 4, 8])
        per = [rng.randint(0, 1) for _ in range(3)]
        ops.append("cart medium 1 %s | %s" % (fb(1.0), fb(1.0)))
        ops.append("cart new %s %d %d %d %d %d %d" % (" ".join(fb(v) for v in [0.0, 0.0, 0.0, 1.0, 1.0, 1.0]), k, k, k, per[0], per[1], per[2]))
        cs = 1.0 / k
        for _ in range(6):
            ax = rng.randrange(3)
            sgn = rng.choice([1.0, -1.0])
            d = [0.0, 0.0, 0.0]
            d[ax] = sgn
            pt = [(rng.randrange(k) + rng.choice([0.0, 0.5, 0.25])) * cs for _ in range(3)]
            m = rng.randint(1, 2 * k)
            tau = m * cs * rng.choice([1.0, 0.5, 0.25])       # lands on a wall, a box face, or mid cell
            ops.append("cart %s %s" % (rng.choice(["ray", "ray", "reray"]), " ".join(fb(v) for v in pt + d + [tau, 1.0, 0.0])))
    return ops


CART_N = [(1, 1, 1), (2, 3, 5), (3, 5, 7), (8, 8, 8), (16, 1, 1), (6, 9, 10), (7, 7, 7), (12, 5, 3), (1, 4, 9), (5, 5, 1)]


def cart_wall(a, s, n, i):
    """wall position exactly as get_cell computes it: anchor + cellside * index"""
    return a + (s / n) * i


def gen_cart(rng, ngrids, nloc, nray, thorough):
    import math
    ops = []
    for gi in range(ngrids):
        kind, a, s = rand_box(rng)
        while kind in ("huge", "tiny"):
            kind, a, s = rand_box(rng)
        n = rng.choice(CART_N) if rng.random() < 0.8 else tuple(rng.randint(1, 11) for _ in range(3))
        per = [rng.randint(0, 1) for _ in range(3)] if gi % 4 else [[0, 0, 0], [1, 1, 1], [1, 0, 0], [0, 0, 1]][(gi // 4) % 4]
        anyper = any(per)
        kx = rng.randint(1, 7)
        if anyper:
            xs = [rng.choice([1.0, 0.25, rng.uniform(0.2, 2.0)]) for _ in range(kx)]
        else:
            xs = [rng.choice([0.0, 0.0, 1.0, 1e-3, rng.uniform(0.0, 2.0)]) for _ in range(kx)]
        kd = rng.randint(1, 3)
        ds = [rng.choice([1.0, rng.uniform(0.5, 3.0)]) for _ in range(kd)]
        ops.append("cart medium %d %s | %s" % (kx, " ".join(fb(v) for v in xs), " ".join(fb(v) for v in ds)))
        ops.append("cart new %s %d %d %d %d %d %d" % (" ".join(fb(v) for v in a + s), n[0], n[1], n[2], per[0], per[1], per[2]))
        ops.append("cart vol")
        ncell = n[0] * n[1] * n[2]
        def coord(i, k):
            if k == "inside":
                return a[i] + s[i] * rng.random()
            if k == "wall":          # exactly on a cell wall (as the grid computes it)
                return cart_wall(a[i], s[i], n[i], rng.randint(0, n[i] - 1))
            if k == "wall2":         # the wall as a rounded fraction of the box
                return a[i] + s[i] * (rng.randint(0, n[i] - 1) / n[i])
            if k == "lowface":
                return a[i]
            if k == "topface":       # one ulp inside the top face (exact arithmetic)
                return below(a[i] + s[i], a[i], s[i])
            return a[i] + (s[i] / n[i]) * (rng.randint(0, n[i] - 1) + 0.5)    # mid
        for _ in range(nloc):
            ks = [rng.choice(["inside", "inside", "wall", "wall", "wall2", "lowface", "topface", "mid"]) for _ in range(3)]
            pt = [coord(i, ks[i]) for i in range(3)]
            pt = [below(max(pt[i], a[i]), a[i], s[i]) for i in range(3)]
            ops.append("cart loc " + " ".join(fb(v) for v in pt))
        cells = range(ncell) if ncell <= (64 if not thorough else 400) else [rng.randrange(ncell) for _ in range(40)] + [0, ncell - 1]
        for c in cells:
            ops.append("cart ngb %d" % c)
        # rays
        kappa = (sum(xs) / len(xs)) * (sum(ds) / len(ds)) + 1e-3
        L = min(s)
        for _ in range(nray):
            ks = [rng.choice(["inside", "inside", "wall", "mid", "lowface"]) for _ in range(3)]
            pt = [coord(i, ks[i]) for i in range(3)]
            pt = [min(max(pt[i], a[i]), cart_wall(a[i], s[i], n[i], n[i] - 1) + 0.75 * (s[i] / n[i])) for i in range(3)]
            dk = rng.choice(["axis", "axis", "plane-diag", "diag", "generic", "generic", "nonunit", "near-axis"])
            if dk == "axis":
                d = [0.0, 0.0, 0.0]
                d[rng.randrange(3)] = rng.choice([1.0, -1.0])
            elif dk == "plane-diag":
                d = [rng.choice([1.0, -1.0]) / math.sqrt(2.0)] * 3
                d = [d[0] * rng.choice([1, -1]), d[1] * rng.choice([1, -1]), d[2]]
                d[rng.randrange(3)] = 0.0
                nn = math.sqrt(sum(v * v for v in d))
                d = [v / nn for v in d]
            elif dk == "diag":
                d = [rng.choice([1.0, -1.0]) / math.sqrt(3.0) for _ in range(3)]
            elif dk == "generic":
                d = [rng.gauss(0, 1) for _ in range(3)]
                nn = math.sqrt(sum(v * v for v in d))
                d = [v / nn for v in d]
            elif dk == "nonunit":
                d = [rng.uniform(-2, 2) for _ in range(3)]
            else:
                d = [1e-9 * rng.gauss(0, 1) for _ in range(3)]
                d[rng.randrange(3)] = rng.choice([1.0, -1.0])
            if all(v == 0.0 for v in d):
                d[0] = 1.0
            sh = rng.choice([1.0, 1.0, 0.5, 2.3])
            she = rng.choice([0.0, 0.0, 0.7])
            tk = rng.choice(["tiny", "small", "medium", "large", "huge"])
            u = {"tiny": 1e-6, "small": 10 ** rng.uniform(-3, -1), "medium": rng.uniform(0.1, 1.5),
                 "large": rng.uniform(1.5, 6.0), "huge": 1e3}[tk]
            if anyper:
                u = min(u, 6.0)
            tau = kappa * sh * L * u
            # half of the photons are redirected ones (set_direction after a first trace)
            ops.append("cart %s %s" % (rng.choice(["ray", "reray"]), " ".join(fb(v) for v in pt + d + [tau, sh, she])))
    return ops



# ---- PointLocations (bucket grid nearest neighbour) and Octree

def point_set(rng, a, s, N, n=None):
    import math
    kind = rng.choice(["uniform", "uniform", "clustered", "clustered", "walls", "one-bucket", "line"])
    pts = []
    if kind == "clustered":
        centres = [[a[i] + s[i] * rng.random() for i in range(3)] for _ in range(rng.randint(1, 4))]
        width = 10 ** rng.uniform(-3, -0.7)
    for k in range(N):
        if kind == "uniform":
            p = [a[i] + s[i] * rng.random() for i in range(3)]
        elif kind == "clustered":
            c = rng.choice(centres)
            p = [c[i] + s[i] * width * rng.gauss(0, 1) for i in range(3)]
        elif kind == "walls" and n:
            p = [a[i] + s[i] * (rng.randint(0, n - 1) / n) if rng.random() < 0.6 else a[i] + s[i] * rng.random() for i in range(3)]
        elif kind == "one-bucket":
            p = [a[i] + s[i] * (0.31 + 0.01 * rng.random()) for i in range(3)]
        else:
            u = rng.random()
            p = [a[i] + s[i] * u * (0.3 + 0.2 * i) for i in range(3)]
        p = [min(max(p[i], a[i]), a[i] + s[i] * (1.0 - 1e-9)) for i in range(3)]
        pts.append(p)
    return kind, pts


def gen_pl(rng, nsets, nq):
    import math
    ops = []
    for _ in range(nsets):
        kind, a, s = rand_box(rng)
        while kind in ("huge", "tiny"):
            kind, a, s = rand_box(rng)
        npc = rng.choice([1, 1, 2, 5, 10, 100])
        N = rng.choice([2, 3, 8, 27, 64, rng.randint(2, 400), rng.randint(50, 400)])
        n = int(round(math.cbrt(N // min(npc, N))))
        pk, pts = point_set(rng, a, s, N, n)
        ops.append("pl new %d %d %s %s" % (npc, n, " ".join(fb(v) for v in a + s), " ".join(fb(v) for p in pts for v in p)))
        for _ in range(nq):
            qk = rng.choice(["random", "random", "point", "wall", "corner", "near-point", "top"])
            if qk == "random":
                q = [a[i] + s[i] * rng.random() for i in range(3)]
            elif qk == "point":
                q = list(rng.choice(pts))
            elif qk == "wall":
                q = [a[i] + s[i] * (rng.randint(0, n - 1) / n) for i in range(3)]
            elif qk == "corner":
                q = [rng.choice([a[i], a[i] + s[i] * (1 - 1e-9)]) for i in range(3)]
            elif qk == "near-point":
                p0 = rng.choice(pts)
                q = [p0[i] + s[i] * 1e-3 * rng.gauss(0, 1) for i in range(3)]
            else:
                q = [a[i] + s[i] * (1.0 - 1e-9 * rng.random()) for i in range(3)]
            q = [min(max(q[i], a[i]), a[i] + s[i] * (1.0 - 1e-9)) for i in range(3)]
            ops.append("pl near " + " ".join(fb(v) for v in q))
    return ops


def gen_oct(rng, nsets, nq):
    ops = []
    for si in range(nsets):
        kind, a, s = rand_box(rng)
        while kind in ("huge", "tiny"):
            kind, a, s = rand_box(rng)
        per = rng.randint(0, 1)
        if si == 0 or rng.random() < 0.03:
            # a single position: the root is a leaf, the walks start at the root itself (fixed defect
            # octree:single-position-search-returns-nothing); first query = the point itself
            p0 = [a[i] + s[i] * rng.random() for i in range(3)]
            h0 = min(s) * rng.choice([0.0, 0.2, 1.5])
            ops.append("oct new %d %s %s" % (per, " ".join(fb(v) for v in a + s), " ".join(fb(v) for v in p0 + [h0])))
            ops.append("oct ngbs %s" % " ".join(fb(v) for v in p0))
            ops.append("oct sphere %s %s" % (" ".join(fb(v) for v in p0), fb(min(s) * 0.1)))
            ops.append("oct closest %s" % " ".join(fb(v) for v in [a[i] + s[i] * rng.random() for i in range(3)]))
            for _ in range(3):
                q = [a[i] + s[i] * rng.random() for i in range(3)]
                ops.append("oct %s %s" % (rng.choice(["ngbs", "closest"]), " ".join(fb(v) for v in q)))
            continue
        N = rng.choice([2, 3, 10, 100, rng.randint(2, 300)])
        pk, pts = point_set(rng, a, s, N)
        seen, upts = set(), []
        for p in pts:                       # the Octree moves exact duplicates; keep the points distinct
            if tuple(p) not in seen:
                seen.add(tuple(p))
                upts.append(p)
        if len(upts) < 2:
            continue
        hs = [min(s) * rng.choice([0.0, 0.05, 0.2, 0.5 * rng.random(), 1.5]) for _ in upts]
        ops.append("oct new %d %s %s" % (per, " ".join(fb(v) for v in a + s),
                                          " ".join(fb(v) for p, h in zip(upts, hs) for v in p + [h])))
        for _ in range(nq):
            q = [a[i] + s[i] * rng.random() for i in range(3)] if rng.random() < 0.7 else list(rng.choice(upts))
            which = rng.choice(["ngbs", "sphere", "closest"])
            if which == "sphere":
                ops.append("oct sphere %s %s" % (" ".join(fb(v) for v in q), fb(min(s) * rng.choice([0.0, 0.01, 0.1, 0.4]))))
            else:
                ops.append("oct %s %s" % (which, " ".join(fb(v) for v in q)))
    return ops



# ---- VoronoiDensityGrid (oracle only: volumes, point location = nearest generator, traversal tied
# to the geometry through get_cell_index), old and new construction algorithm, 0 / 1 / 3 Lloyd iterations

def gen_vor(rng, ngrids, nloc, nray):
    import math
    ops = []
    for gi in range(ngrids):
        kind, a, s = rand_box(rng)
        while kind in ("huge", "tiny"):
            kind, a, s = rand_box(rng)
        typ = ["Old", "New"][gi % 2]
        lloyd = [1, 3, 0][(gi // 2) % 3]
        N = rng.choice([12, 20, 40, 80])
        gens = [[a[i] + s[i] * (0.02 + 0.96 * rng.random()) for i in range(3)] for _ in range(N)]
        ds = [rng.choice([0.5, 1.0, 2.0, 5.0]) for _ in range(7)]
        xs = [rng.choice([1.0, 0.5, 0.1]) for _ in range(5)]
        ops.append("vor new %s %d %s | %s | %s | %s" % (typ, lloyd, " ".join(fb(v) for v in a + s),
                   " ".join(fb(v) for g in gens for v in g), " ".join(fb(v) for v in ds), " ".join(fb(v) for v in xs)))
        for _ in range(nloc):
            ops.append("vor loc %s" % " ".join(fb(a[i] + s[i] * rng.random()) for i in range(3)))
        L = min(s)
        for _ in range(nray):
            pt = [a[i] + s[i] * (0.01 + 0.98 * rng.random()) for i in range(3)]
            if rng.random() < 0.2:
                d = [0.0, 0.0, 0.0]
                d[rng.randrange(3)] = rng.choice([1.0, -1.0])
            else:
                ct = 2 * rng.random() - 1
                st = math.sqrt(max(0.0, 1 - ct * ct))
                ph = 2 * math.pi * rng.random()
                d = [st * math.cos(ph), st * math.sin(ph), ct]
            sh = rng.choice([1.0, 2.5])
            tau = sh * L * rng.choice([0.05, 0.3, 1.0, 3.0, 50.0]) * rng.random()
            ops.append("vor %s %s" % (rng.choice(["ray", "ray", "reray"]), " ".join(fb(v) for v in pt + d + [tau, sh])))
    return ops


def clustered_generators(rng, a, s, kind, nclump, nback):
    """well separated random generators: dense clump(s) in 1-5 % of the box volume + sparse
    background (as in SPH snapshots), or points close to the walls; no lattices, no duplicates"""
    pts, seen = [], set()

    def add(p):
        p = [min(max(p[i], a[i] + 1e-4 * s[i]), a[i] + s[i] * (1.0 - 1e-4)) for i in range(3)]
        key = tuple(int((p[i] - a[i]) / s[i] * 2e5) for i in range(3))     # >= 5e-6 box sides apart
        if key not in seen:
            seen.add(key)
            pts.append(p)

    nclumps = 2 if kind == "two-clumps" else 1
    for _ in range(nclumps):
        f = rng.uniform(0.01, 0.05) ** (1.0 / 3.0)
        c = [a[i] + s[i] * rng.uniform(0.5 * f + 0.02, 1.0 - 0.5 * f - 0.02) for i in range(3)]
        for _ in range(nclump // nclumps):
            add([c[i] + s[i] * f * (rng.random() - 0.5) for i in range(3)])
    for _ in range(nback):
        if kind == "walls" and rng.random() < 0.5:
            p = [a[i] + s[i] * rng.random() for i in range(3)]
            ax = rng.randrange(3)
            off = 10 ** rng.uniform(-3, -2)
            p[ax] = a[ax] + s[ax] * (off if rng.random() < 0.5 else 1.0 - off)
            add(p)
        else:
            add([a[i] + s[i] * rng.random() for i in range(3)])
    rng.shuffle(pts)
    return pts


def gen_vor_big(rng, thorough):
    """large / clustered generator sets for the oracle-only Voronoi stream: geometric clauses on
    each construction (`vor geom`) and agreement of the Old and New construction (`vor both`)"""
    ops = []

    def box():
        kind, a, s = rand_box(rng)
        while kind in ("huge", "tiny"):
            kind, a, s = rand_box(rng)
        return a, s

    def both(pts, a, s):
        ops.append("vor both %s | %s" % (" ".join(fb(v) for v in a + s), " ".join(fb(v) for g in pts for v in g)))

    def geom(typ, lloyd, pts, a, s):
        ops.append("vor geom %s %d %s | %s" % (typ, lloyd, " ".join(fb(v) for v in a + s), " ".join(fb(v) for g in pts for v in g)))

    # quick: ~400-generator clustered sets through both constructions (clump, two clumps, clump +
    # points close to the walls), and one smaller set per construction with a Lloyd iteration
    for kind in ("clump", "two-clumps", "walls", "clump"):
        a, s = box()
        both(clustered_generators(rng, a, s, kind, rng.randint(250, 320), rng.randint(60, 100)), a, s)
    for typ in ("Old", "New"):
        a, s = box()
        geom(typ, 1, clustered_generators(rng, a, s, rng.choice(["clump", "two-clumps", "walls"]), 150, 60), a, s)
    if thorough:
        for k in range(10):
            a, s = box()
            kind = ["clump", "two-clumps", "walls", "uniform"][k % 4]
            if kind == "uniform":
                pts = clustered_generators(rng, a, s, "clump", 0, rng.randint(300, 1500))
            else:
                pts = clustered_generators(rng, a, s, kind, rng.randint(100, 300) * (2 if kind == "two-clumps" else 1), rng.randint(50, 100) + (rng.randint(200, 1000) if k >= 6 else 0))
            if k % 3 == 2:
                geom(["Old", "New"][k % 2], rng.choice([0, 1]), pts, a, s)
            else:
                both(pts, a, s)
    return ops


# ---- AMRDensityGrid: the model holds the same tree (explicit refinement keys)

AMRD_NB = [(1, 1, 1), (3, 1, 1), (1, 3, 2), (3, 3, 3), (2, 3, 1), (5, 2, 1), (1, 1, 3)]


def gen_amrd(rng, ngrids, nloc, nray, maxcells=900):
    import math
    ops = []
    for gi in range(ngrids):
        kind, a, s = rand_box(rng)
        while kind in ("huge", "tiny"):
            kind, a, s = rand_box(rng)
        nb = rng.choice(AMRD_NB)           # at least one odd block count: the class keeps this block layout
        level = rng.choice([0, 1, 1, 2])
        per = [rng.randint(0, 1) for _ in range(3)] if gi % 3 else [0, 0, 0]
        # a single cell across a periodic axis is its own neighbour: the traversal never wraps the
        # position and spins with ds = 0 (degenerate configuration, reported, not generated)
        per = [per[i] if nb[i] * (1 << level) >= 2 else 0 for i in range(3)]
        def all_paths(l):
            if l == 0:
                return [()]
            return [(c,) + r for c in range(8) for r in all_paths(l - 1)]
        leaves = [((ix, iy, iz), pth) for ix in range(nb[0]) for iy in range(nb[1]) for iz in range(nb[2])
                  for pth in all_paths(level)]
        keys = []
        style = rng.choice(["none", "random", "deep", "deep", "edge"])
        nref = 0 if style == "none" else rng.randint(1, 25)
        for _ in range(nref):
            if len(leaves) + 7 > maxcells:
                break
            if style == "deep":
                leaf = rng.choice(sorted(leaves, key=lambda l: -len(l[1]))[:8])
            elif style == "edge":      # cells at the faces of the box: wraps into refined neighbours
                cand = [l for l in leaves if l[0][0] in (0, nb[0] - 1) or l[0][2] in (0, nb[2] - 1)]
                leaf = rng.choice(cand or leaves)
            else:
                leaf = rng.choice(leaves)
            if len(leaf[1]) >= 6:
                continue
            blk, pth = leaf
            keys.append(amr_key(blk[0], blk[1], blk[2], pth))
            i = leaves.index(leaf)
            leaves[i:i + 1] = [(blk, pth + (c,)) for c in range(8)]
        kx = rng.randint(1, 7)
        xs = [rng.choice([1.0, 0.25, rng.uniform(0.2, 2.0)]) for _ in range(kx)]
        kd = rng.randint(1, 3)
        ds = [rng.choice([1.0, rng.uniform(0.5, 3.0)]) for _ in range(kd)]
        ops.append("amrd new %s %d %d %d %d %d %d %d %s | %s | %s" % (
            " ".join(fb(v) for v in a + s), nb[0], nb[1], nb[2], level, per[0], per[1], per[2],
            " ".join(fb(v) for v in xs), " ".join(fb(v) for v in ds), " ".join(str(k) for k in keys)))
        for _ in range(nloc):
            lf = rng.choice(leaves)
            an, sd = amr_leaf_box(a, s, tuple(nb[i] for i in range(3)), lf[0], lf[1])
            k = rng.choice(["inside", "inside", "wall", "mid", "lowface", "topface"])
            pt = []
            for i in range(3):
                if k == "inside":
                    pt.append(an[i] + sd[i] * rng.random())
                elif k == "wall":
                    pt.append(rng.choice([an[i], an[i] + sd[i]]) if rng.random() < 0.6 else an[i] + sd[i] * rng.random())
                elif k == "mid":
                    pt.append(an[i] + 0.5 * sd[i])
                elif k == "lowface":
                    pt.append(a[i] if rng.random() < 0.5 else an[i] + sd[i] * rng.random())
                else:
                    pt.append(below(a[i] + s[i], a[i], s[i]) if rng.random() < 0.5 else an[i] + sd[i] * rng.random())
            pt = [below(max(pt[i], a[i]), a[i], s[i]) for i in range(3)]
            ops.append("amrd loc " + " ".join(fb(v) for v in pt))
        L = min(s)
        kappa = (sum(xs) / len(xs)) * (sum(ds) / len(ds))
        for _ in range(nray):
            lf = rng.choice(leaves)
            an, sd = amr_leaf_box(a, s, tuple(nb[i] for i in range(3)), lf[0], lf[1])
            sk = rng.choice(["inside", "inside", "inside", "wall", "mid"])
            pt = []
            for i in range(3):
                if sk == "inside":
                    pt.append(an[i] + sd[i] * (0.02 + 0.96 * rng.random()))
                elif sk == "wall":
                    pt.append(an[i] if rng.random() < 0.5 else an[i] + sd[i] * rng.random())
                else:
                    pt.append(an[i] + 0.5 * sd[i])
            pt = [below(max(pt[i], a[i]), a[i], s[i]) for i in range(3)]
            dk = rng.choice(["axis", "generic", "generic", "plane-diag", "diag"])
            if dk == "axis":
                d = [0.0, 0.0, 0.0]
                d[rng.randrange(3)] = rng.choice([1.0, -1.0])
            elif dk == "generic":
                d = [rng.gauss(0, 1) for _ in range(3)]
            elif dk == "plane-diag":
                d = [rng.choice([1.0, -1.0]), rng.choice([1.0, -1.0]), 0.0]
                rng.shuffle(d)
            else:
                d = [rng.choice([1.0, -1.0]) for _ in range(3)]
            nn = math.sqrt(sum(v * v for v in d))
            d = [v / nn for v in d]
            sh = rng.choice([1.0, 0.5, 2.3])
            u = rng.choice([1e-5, 10 ** rng.uniform(-3, -1), rng.uniform(0.1, 1.5), rng.uniform(1.5, 5.0),
                            1e3 if not any(per) else 4.0])
            ops.append("amrd %s %s" % (rng.choice(["ray", "ray", "reray"]), " ".join(fb(v) for v in pt + d + [kappa * sh * L * u, sh])))
    return ops

# --------------------------------------------------------------------------- run

def cmp_exact(a, b, op):
    return a == vlib.strip_branch(b)


REL = 1e-9
STATS = {"lines": 0, "bitexact": 0}


def float_positions(w):
    """indices of the tokens of an answer line that are doubles (bit patterns)"""
    if w[:2] == ["cart", "new"]:
        return {3}
    if w[:2] == ["cart", "loc"]:
        return set(range(6, 12))
    if w[:2] == ["amr", "loc"] and len(w) == 9:
        return set(range(3, 9))
    if w[:2] == ["amrd", "ray"]:
        return {3, 4, 5, 7} | set(range(9, len(w), 2))
    if w[:2] == ["cart", "ray"]:
        return {3, 4, 5, 7} | set(range(9, len(w), 2))
    if w[:2] == ["pl", "near"] and len(w) == 4:
        return {3}
    return set()


def cmp_num(a, b, op):
    """discrete parts identical, doubles within REL (relative) — bit-exact rate recorded"""
    if op.startswith("vor "):       # VoronoiDensityGrid: no model, judged by the oracles of the harness
        return True
    b = vlib.strip_branch(b)
    STATS["lines"] += 1
    if a == b:
        STATS["bitexact"] += 1
        return True
    wa, wb = a.split(), b.split()
    if len(wa) != len(wb):
        return False
    fp = float_positions(wa)
    for i, (x, y) in enumerate(zip(wa, wb)):
        if x == y:
            continue
        if i not in fp:
            return False
        if not vlib.floats_close(x, y, REL, 1e-300):
            return False
    return True


GROUP = {"amrdensitygrid": lambda op: op.startswith("amrd new"), "buckets": lambda op: op.startswith("pl new"), "octree": lambda op: op.startswith("oct new"), "voronoi": lambda op: op.startswith("vor new") or op.startswith("vor geom") or op.startswith("vor both"), "amr": lambda op: op.startswith("amr new"), "cartesian": lambda op: op.startswith("cart medium")}


def harness_kw():
    """CartesianDensityGrid.cpp / DensityGrid.cpp are compiled into the harness (the test of the
    repo links libLegacyEngine); include paths for HDF5/MPI headers come from the configured tree"""
    cfg = vlib.ensure_configured()
    inc = set()
    try:
        for l in open(os.path.join(vlib.FULL, "build.ninja")):
            if l.strip().startswith("INCLUDES ="):
                inc.update(x for x in l.split("=", 1)[1].split() if x.startswith("-I"))
    except OSError:
        pass
    inc = sorted(i for i in inc if not i.startswith("-I" + vlib.REPO) and not i.startswith("-I" + vlib.FULL)) + [
        "-I" + os.path.join(vlib.FULL, "include")]
    # VoronoiDensityGrid (oracle-only stream) comes from the libraries of the tree under test
    # (incremental build; the sources the Lean models mirror stay compiled into the harness with
    # -ffp-contract=off and take precedence over the archive members)
    vlib.full_binary(targets=("LegacyEngine", "SharedEngine"))
    libs = [os.path.join(vlib.FULL, "lib", "libLegacyEngine.a"), os.path.join(vlib.FULL, "lib", "libSharedEngine.a")]
    return {"extra": inc + [os.path.join(vlib.REPO, "src", "CartesianDensityGrid.cpp"),
                            os.path.join(vlib.REPO, "src", "DensityGrid.cpp")], "libs": libs}


OP_STREAM = {"amr": "amr", "cart": "cartesian", "amrd": "amrdensitygrid", "pl": "buckets", "oct": "octree", "vor": "voronoi",
             "morton": "morton", "inc": "shells", "shell": "shells", "maxrange": "maxrange", "range": "range"}


def stream_of(grp, name):
    """oracle keys are named after the kind of operation (so that corpus lines get the same key
    as generated ones)"""
    if grp:
        return OP_STREAM.get(grp[-1].split()[0], name)
    return name


EXPECTED_BRANCHES = (
    ["inc-jump-rz", "inc-next-level", "inc-rx+1", "inc-ry+1", "inc-rz+1", "max-all-max", "max-mx-min", "max-my-min", "max-mz-min"]
    + ["amr-depth-%d" % i for i in range(0, 9)] + ["amr-block-index-clamped", "amr-child-index-clamped"]
    + ["cart-%s-%s%s" % (a, b, c) for a in ("absorbed", "escaped") for b in ("1cell", "multi") for c in ("", "-periodic")]
    + ["cart-in-range", "cart-top-index-clamped", "cart-tau-exactly-zero", "cart-edge-or-corner-crossing", "cart-periodic-wrap",
       "cart-corrected-last-step"] + ["cart-ngb-boundary-%d" % i for i in range(0, 7)]
    + ["pl-all-blocks", "pl-covered"] + ["pl-level-%d" % i for i in range(0, 5)]
    + ["amrd-depth-%d" % i for i in range(0, 4)] + ["amrd-%s-%s" % (a, b) for a in ("absorbed", "escaped") for b in ("1cell", "multi")]
    + ["amrd-level-change", "amrd-periodic-wrap", "amrd-corrected-last-step"] + ["oct-found-%d" % i for i in range(0, 5)]
    + ["cart-redirected-photon", "amrd-redirected-photon", "oct-all-stored"])


def tally(ctx, ops, model, nontrivial=lambda op, ml: True):
    for op, ml in zip(ops, model):
        ctx.count()
        if " #" in ml:
            for tag in ml.split(" #")[1:]:
                ctx.branch(tag.strip())
        ctx.distinct(op, nontrivial=nontrivial(op, ml))


def run(ctx):
    ctx.level = "proof"
    ctx.assumptions += [
        "VoronoiDensityGrid (old and new construction, 0/1/3 Lloyd iterations, non-periodic) has NO Lean model and no theorem (C15 not applicable): it is driven and judged by grid-independent oracles on the implementation only (volumes sum to the box; located cell = cell of the nearest reported generator; every generator in its own cell; neighbour relation mutual with equal face areas; on large and clustered generator sets (dense clump(s) in 1-5 % of the box + sparse background, points close to the walls; ~400 generators in quick, 300-1500 in thorough, each in a fresh process with a time limit: a construction that aborts or does not finish gives no verdict and is counted in coverage.voronoi_constructions_gave_up) additionally: Old and New construction agree on cell volumes and neighbour sets for the same generators (C15's 'two constructions agree' clause stays not_applicable as a claim; here it is only one more oracle of this oracle-only stream). Tolerances: New construction 1e-9 relative on the volume sum; the Old construction cuts with its own tolerances (clean code: single cells off by up to ~4e-7 relative, sum by up to ~4e-9 on clustered sets) and is held to 1e-7 / 1e-5 per cell against New; path sum; optical depth accounting; chord oracle: the path deposited in each cell equals the chord of the straight segment in that cell as cut by get_cell_index, the absorbed photon ends in the returned cell). The same chord oracle runs on CartesianDensityGrid and AMRDensityGrid",
        "photons: every traversal is driven with freshly constructed photons AND with photons that were constructed with another direction, traced, and redirected through the public setters set_position/set_direction (the only way PhotonSource::reemit, DustScattering, DustPhotonShootJob and the task based re-emission give a photon a new direction); photon_inverse_direction proves both paths cache 1/direction",
        "Voronoi grids are otherwise not covered (C15 not applicable); Octree::get_closest_ngb and the periodic Octree distances are tied by the differential run and the brute-force oracle only (modelled, no theorem beyond octree_search_is_bruteforce, whose covering hypotheses are then assumptions)",
        "AMR traversal theorems (amr_path_sum, amr_tau_account, amr_absorbed_cell_contains_end, amr_segments_in_cells) hold for every grid of well-formed trees (depth <= 10, hence every tree reachable by refinements), every medium, every photon and every loop fuel under RayHyp: positive box sides, start in the half-open box, non-zero direction, DBL_MAX above every wall distance, and no leaf spanning the whole box on a periodic axis (such a leaf is its own neighbour: the code spins with ds = 0); NO 2:1 level balance is needed (set_ngbs stores a same-level or coarser neighbour, a coarser one is always a leaf; amr_neighbours_geometric)",
        "octree_build_search: for positions in the half-open box no two of which are closer than 2^-62 box sides on all three axes, add_position never descends beyond 63 levels, every index is stored and get_ngbs / get_ngbs_sphere return exactly the brute-force answer over ALL positions (non-periodic distances); the premise is checked on every run (driver tag oct-all-stored: the 64-level fuel of the model dropped no position; the real code recurses without bound and equal positions never separate). octree_build_search_partial keeps the statement over the STORED indices without the separation hypothesis; one-position and empty trees included (fixed defect octree:single-position-search-returns-nothing, octree_single_position)",
        "theorems are about exact arithmetic (Nat/Int for keys and traversals, real numbers for the geometric parts); IEEE rounding is not modelled, the tie is the bit-exact differential run on doubles",
        "AMR keys: depth <= 10 and <= 1024 blocks per axis (the widths of the 32+32 bit key); the C++ shifts `cell << 3*level` overflow int beyond that",
        "max_range_is_last / increase_range_next are for cubic bucket grids (sx = sy = sz), the only ones the PointLocations constructor builds; set_max_range is wrong for some non-cubic sizes (Lean counterexample 5x1x3, anchor (2,0,2))",
        "nearest_is_bruteforce_built: for the grid the constructor model builds (Buckets.build, the definition the driver runs) with all positions and the query in the half-open box, the geometric hypotheses (points in their buckets, query in its anchor cell, covered-radius bound) are theorems and the answer is the brute-force nearest neighbour of ALL positions; the only remaining hypotheses are the fuel bounds of the two model loops (checked by the run: an exhausted fuel is printed). nearest_is_bruteforce_partial / nearest_is_bruteforce remain for arbitrary bucket grids (hcover / Geo assumed there)",
        "cartesian_path_sum holds for every loop fuel; termination is not claimed (a periodic grid without opacity loops forever in the C++ as well) — generators keep opacities positive on periodic grids",
        "a single cell across a periodic axis of an AMRDensityGrid is its own neighbour: the traversal never wraps the position and spins with ds = 0 (degenerate configuration, reported, not generated)",
        "positions within one ulp of a top face / exactly on AMR block walls with odd block counts: the code clamps the indices (fixes 2fae05a, d8603ab) and the models mirror the clamps; amr_locate_total / cartesian_index_robust hold for every numeric type without any assumption on rounding, the exact-arithmetic theorems show the clamps are inactive inside the box",
    ]
    ok = ctx.obligations("CMacVerif.Props.C16", ["drv_c16"])
    h = vlib.build_harness("c16", **harness_kw())
    d = vlib.driver("drv_c16")
    rng = ctx.rng
    corpus = vlib.corpus_ops("C16")
    streams = [
        ("morton", gen_morton(rng, ctx.budget(3000, 200000))),
        ("shells", gen_shells(rng, ctx.thorough)),
        ("maxrange", gen_maxrange(rng, ctx.thorough)),
        ("range", gen_range(rng, ctx.thorough)),
        ("amr", gen_amr(rng, ctx.budget(40, 600), ctx.budget(25, 60), ctx.budget(6, 12))),
        ("buckets", gen_pl(rng, ctx.budget(60, 1500), ctx.budget(25, 60))),
        ("octree", gen_oct(rng, ctx.budget(40, 800), ctx.budget(20, 40))),
        ("voronoi", gen_vor(rng, ctx.budget(6, 60), ctx.budget(10, 30), ctx.budget(25, 60)) + gen_vor_big(rng, ctx.thorough)),
        ("amrdensitygrid", gen_amrd(rng, ctx.budget(25, 400), ctx.budget(12, 30), ctx.budget(30, 80))),
        ("cartesian", gen_cart_exact(rng, ctx.budget(40, 400)) + gen_cart(rng, ctx.budget(40, 800), ctx.budget(25, 60), ctx.budget(40, 120), ctx.thorough)),
    ]
    if corpus:
        streams.insert(0, ("corpus", corpus))
    ctx.cov["rule"] = ("one evaluation = one op line answered by implementation and model; distinct = different op text; "
                       "non-trivial = every line (each op exercises at least one modelled function on generated data); "
                       "branch_histogram = model branch tags (increase_indices branch, set_max_range choice, AMR leaf depth, "
                       "Cartesian ray outcome x cells x periodicity, neighbour boundary count, bucket search exit and level, AMRDensityGrid leaf depth / "
                       "ray outcome / level change / periodic wrap, Octree result size, redirected photons); the voronoi stream has no model: "
                       "its lines are evaluations of the implementation oracles only and are not counted in the bit-exact rate)")
    if not ok:
        return
    for name, ops in streams:
        if not ops:
            continue
        n, impl, model, orc = ctx.correspond(name, h, d, ops, cmp=cmp_num,
                                             group_start=GROUP.get(name),
                                             oracle_key=lambda what, grp, name=name: "%s:%s" % (stream_of(grp, name), what.split()[0]))
        tally(ctx, ops, model)
        if name == "voronoi":
            # large constructions run in a fresh process with a time limit; one that aborts on its own
            # asserts or does not finish is "gave-up" (no verdict), recorded here
            gave = sum(1 for l in impl if l.startswith("vor ") and l.endswith("gave-up"))
            ctx.cov["voronoi_constructions_gave_up"] = ctx.cov.get("voronoi_constructions_gave_up", 0) + gave
            if gave:
                ctx.notes.append("voronoi stream: %d large construction(s) gave up (assert / time limit): no verdict for these generator sets" % gave)
        if impl:
            ctx.sample({"stream": name, "op": ops[0], "impl": impl[0]})
    missing = [b for b in EXPECTED_BRANCHES if b not in ctx.cov["branch_histogram"]]
    ctx.cov["missing_branches"] = missing
    if missing and ctx.thorough:
        ctx.notes.append("coverage gate: model branches never taken in this run (insufficient evidence, not a violation): " + ", ".join(missing))
    ctx.cov["tolerance"] = "discrete outputs identical; doubles relative %g" % REL
    ctx.cov["bit_exact_rate"] = (STATS["bitexact"] / STATS["lines"]) if STATS["lines"] else None


def replay(ctx, path):
    return vlib.generic_replay(ctx, path, "c16", "drv_c16", cmp=cmp_num, harness_kw=harness_kw())


MANIFEST = dict(
    category="proof",
    text=("Lean 4 theorems, all with unbounded quantifiers. Cartesian grid: every position of the half-open box lies in exactly one "
          "cell, the one get_cell_indices returns, and its long index converts back (cartesian_unique_cell); cell volumes sum to the box "
          "(cartesian_volumes); neighbour relations are mutual incl. periodic wrap (cartesian_neighbours_mutual); interact, for every "
          "grid / medium / ray / optical depth and every number of loop iterations: sum path*direction = displacement up to whole box "
          "lengths on periodic axes only, absorbed <=> final cell index inside the grid, absorbed => sum kappa*path = tau exactly, "
          "escaped => sum kappa*path = tau - remaining with remaining >= 0 (cartesian_path_sum); get_wall_intersection returns a "
          "non-negative distance to the wall(s) named by the index offsets, inside the closed cell (cartesian_wall_intersection); "
          "through wall, edge, corner crossings and periodic wraps the position stays in the closed box of the current cell, every "
          "recorded path is >= 0 and credited to a cell of the grid, an absorbed photon ends inside the box (cartesian_segments); the "
          "deposits ARE the chords of the straight line: the deposit (c, ds) made after the deposits `older` covers the line "
          "parameters [T, T+ds], T = sum of older; that interval lies in the closed chord of cell c (for one image of the line modulo "
          "whole box lengths on periodic axes), and wherever on it the line is in the OPEN box of any cell, that cell is c "
          "(cartesian_deposits_are_chords; ClosedChord/OpenChord are the Lean definitions of the chord of a line in an axis-aligned "
          "cell; the harness evaluates the same statement on the real classes, chord oracle). AMR grid: key <-> (level, path) "
          "bijection and 64-bit block/cell split (amr_key_roundtrip); get_first_key/get_next_key visit every leaf exactly once in Morton "
          "order for EVERY tree of depth <= 10 (hence every tree reachable by refinements) and every block layout <= 1024 per axis "
          "(amr_enumeration, amr_enumeration_grid, induction on the tree); refine (amr_refine); leaf volumes sum to the box "
          "(amr_volumes_sum); descent by position ends in the unique leaf whose box contains it (amr_contains); for every numeric type "
          "incl. Float and every position the look-up returns the key of a leaf of the grid (amr_locate_total, clamped indices); "
          "get_cell_indices returns an existing cell whatever the rounding of the product (cartesian_index_robust). "
          "Bucket search: increase_indices visits every integer offset exactly once, level = max-norm, levels ascending "
          "(shells_exactly_once); set_max_range returns the last block of a cubic grid (max_range_is_last); increase_range stops on the "
          "next block inside the grid and never skips a level (increase_range_next); get_closest_neighbour returns the brute-force "
          "nearest neighbour of ALL positions for the grid the constructor builds (nearest_is_bruteforce_built: bucket assignment of "
          "the constructor modelled, Buckets.build, 'points lie in their buckets, query in its anchor cell' and the covered-radius bound "
          "proved from it; nearest_is_bruteforce_partial for arbitrary bucket grids under the covered-radius hypothesis). Morton keys: loop = bit interleaving, injective, "
          "strictly monotone per coordinate. Tie: the same Lean definitions (Float instance) and the real classes run on identical "
          "inputs (random boxes, block counts with odd factors, positions on cell walls and box faces, refinement histories to depth "
          "8, all periodicity flags, axis-aligned/diagonal/generic rays, exact optical-depth ties, random and clustered point sets); "
          "all answers bit-identical; the property oracles are evaluated on the implementation (containment and uniqueness of the "
          "located cell, sum of volumes, enumeration exactly once, neighbour mutuality, sum path = distance, optical depth "
          "accounting, absorbed <=> tau reached, nearest/overlap search = brute force). "
          "AMRDensityGrid photon traversal (get_wall_intersection + interact on the AMR tree model, neighbours through set_ngbs / "
          "get_child(position), periodic_correction; Model/AMRTraverse.lean, bit-exact against the real class): for every grid of "
          "well-formed trees, medium, photon, optical depth and loop fuel (RayHyp): sum path*direction = displacement up to whole box "
          "lengths on periodic axes only, all paths >= 0 (amr_path_sum); absorbed => sum kappa*path = tau, escaped => tau - sum "
          "kappa*path = remaining >= 0 (amr_tau_account); the current/returned leaf contains the final position "
          "(amr_absorbed_cell_contains_end, false before d8e5613); every deposit goes to the leaf whose closed box contains the "
          "whole segment (amr_segments_in_cells, false before 39f0cc7); the stored neighbour is geometrically adjacent across "
          "refinement levels and periodic faces (amr_neighbours_geometric). Octree (Model/Octree.lean, bit-exact incl. result "
          "order; photons built by the constructor and redirected by set_direction both carry 1/direction, photon_inverse_direction): pruned get_ngbs / get_ngbs_sphere = brute force over the stored points under the covering hypotheses "
          "(octree_search_is_bruteforce); the tree built by add_position + set_auxiliaries(max) satisfies them for the Euclidean "
          "distances, for every number of positions (octree_build_search_partial, over the stored indices); for positions separated by "
          ">= 2^-62 box sides on some axis every index is stored and the answer is brute force over ALL positions (octree_build_search); a one-position tree returns its point iff it is in "
          "range (octree_single_position, false before the get_first_node fix); add_position loses no index "
          "(octree_add_position_leaves)."),
    note=("Trusted: Lean kernel + propext/Classical.choice/Quot.sound; hand models of the anchored functions tied by the differential run "
          "(doubles as bit patterns, tolerance rel 1e-9, measured bit-exact rate 1.0). Theorems are about exact arithmetic: IEEE "
          "rounding is not modelled. cartesian_segments assumes inverse direction = 1/direction, a non-zero direction and DBL_MAX "
          "above every wall distance (RayOK). Not proved: termination of interact in periodic grids without opacity (genuinely non-terminating); "
          "Octree::get_closest_ngb and the periodic Octree covering (modelled and compared bit-exactly, brute-force oracle, no theorem); that "
          "positions closer than 2^-62 box sides are stored in the Octree model (recursion fuel 64; checked per run, tag oct-all-stored); Voronoi grids have no model and no theorem (C15 not applicable): VoronoiDensityGrid is driven with 0/1/3 Lloyd iterations and judged only by "
          "grid-independent oracles on the implementation (nearest-generator location, chord oracle through get_cell_index). The AMR "
          "traversal theorems need no 2:1 level balance; they exclude a leaf spanning a periodic axis (own neighbour, ds = 0 forever). max_range_is_last needs "
          "the cubic grid PointLocations always builds (Lean counterexample for 5x1x3). Five genuine defects of /repo were exposed by "
          "this check and are fixed (2fae05a, d8603ab, d8e5613, 39f0cc7 and the one-position Octree walk; known_findings.txt); their reproducers stay in corpus/C16 and "
          "the oracles stay strict."),
    technique="Lean 4 proofs (induction on trees / traversal / loop fuel, omega, linarith, field_simp) + bit-exact differential correspondence + implementation-level oracles")
