"""C08 — shared scheduler containers never give one slot or task to two owners (DESIGN §6 C08).

Correspondence = deterministic schedule replay of the REAL containers through hook H1
(AtomicValue.hpp calls cmac_verif_yield before every atomic operation): harness/c08.cpp runs N
real threads, a baton scheduler releases exactly one thread per schedule entry; the Lean driver
executes the same schedule on Model/Atomics.lean; the logged results and the final shared state
must be identical.  Oracles on the implementation: no slot / lock / task with two owners,
count = #held when quiescent, popped task's locks held, counters lose no update.
"""
import itertools
import os
import re

import vlib

MPI_INC = ["-I/usr/lib/x86_64-linux-gnu/openmpi/include", "-I/usr/lib/x86_64-linux-gnu/openmpi/include/openmpi"]
MPI_LIBS = ["/usr/lib/x86_64-linux-gnu/openmpi/lib/libmpi_cxx.so", "/usr/lib/x86_64-linux-gnu/openmpi/lib/libmpi.so"]


def build_flags():
    """MemorySpace.hpp -> PhotonBuffer.hpp -> PhotonPacket.hpp include <mpi.h> when the project was
    configured with MPI: take include directories / libraries from the configured build tree."""
    inc, libs = [], []
    try:
        txt = open(os.path.join(vlib.ensure_configured(), "..", "build.ninja")).read()
        m = re.search(r"^\s*INCLUDES = (.*)$", txt, flags=re.M)
        if m:
            inc = [f for f in m.group(1).split() if f.startswith("-I") and "mpi" in f]
        for l in re.findall(r"^\s*LINK_LIBRARIES = (.*)$", txt, flags=re.M):
            for f in l.split():
                if f.endswith(".so") and "mpi" in f and f not in libs:
                    libs.append(f)
            if libs:
                break
    except OSError:
        pass
    if not inc:
        inc = [i for i in MPI_INC if os.path.isdir(i[2:])]
    if not libs:
        libs = [l for l in MPI_LIBS if os.path.exists(l)]
    libs.sort(key=lambda f: 0 if "mpi_cxx" in f else 1)
    return inc, libs + ["-lpthread"]


# ------------------------------------------------------------------------------- scenarios

def line(size, nlocks, nqueues, nctr, deps, progs, mode, arg, cap=200, hydro=None):
    d = " ".join("%s %s" % ("-" if a is None else a, "-" if b is None else b) for a, b in deps)
    if hydro is not None:
        d += " H " + " ".join("%s:%d" % (",".join(map(str, ch)) if ch else "-", q) for ch, q in hydro)
    return "S %d %d %d %d %d T %s | %s | %s %s" % (size, cap, nlocks, nqueues, nctr, d,
                                                  " | ".join(" ".join(p) for p in progs), mode, arg)


def hydro_lines(rng, count):
    """the counter protocol of the hydro worker loop on random task DAGs: thread 0 resets the parent
    counters and seeds the roots, then every thread runs iterations  value(); get_task; unlock_dependency;
    release children; pre_decrement  on its own queue and on the others (stealing)"""
    ops = []
    for _ in range(count):
        nt = rng.randint(2, 7)
        nq = rng.randint(1, 2)
        nlocks = rng.randint(1, 3)
        nthreads = rng.choice([2, 2, 3])
        children = []
        for t in range(nt):
            later = list(range(t + 1, nt))
            rng.shuffle(later)
            children.append(sorted(later[:rng.choice([0, 1, 1, 2, 3])]))
        parents = [sum(1 for ch in children if t in ch) for t in range(nt)]
        deps = rand_deps(rng, nlocks, nt)
        hydro = [(children[t], rng.randrange(nq)) for t in range(nt)]
        progs = [[] for _ in range(nthreads)]
        for t in range(nt):
            progs[0].append("su:%d:%d" % (t, parents[t]))
        nroots = 0
        for t in range(nt):
            if parents[t] == 0:
                progs[0].append("sd:%d:%d" % (hydro[t][1], t))
                nroots += 1
        for th in range(nthreads):
            for it in range(rng.randint(nt, 2 * nt)):
                q = (th + it) % nq
                progs[th] += ["ln", rng.choice(["p", "p", "tp"]) + ":%d" % q, "ut:0", "rl"]
        style = rng.choice(["setup-first", "setup-first", "racy"])
        pre = "0" * (nt + 3 * nroots) if style == "setup-first" else ""
        ops.append(line(1, nlocks, nq, 1, deps, progs, "X", pre + rand_sched(rng, nthreads, rng.randint(20, 120)), hydro=hydro))
    return ops


# two-thread families enumerated over every schedule prefix (thorough: exhaustive up to length L)
FAMILIES = [
    # (name, size, nlocks, nqueues, nctr, deps, progs)
    ("pool1-get-free", 1, 1, 1, 1, [(0, None)], [["g", "f:0"], ["g", "f:0"]]),
    ("pool2-fill", 2, 1, 1, 1, [(0, None)], [["g", "g", "f:1"], ["gs", "f:0"]]),
    ("pool2-safe-stale-count", 2, 1, 1, 1, [(0, None)], [["gs", "gs"], ["gs", "f:0", "gs"]]),
    ("pool2-wrap", 2, 1, 1, 1, [(0, None)], [["g", "f:0", "g", "f:0", "g"], ["g", "f:0"]]),
    ("pool3-three", 3, 1, 1, 1, [(0, None)], [["gs", "gs", "f:0", "gs"], ["g", "gs", "fb:1"]]),
    ("lock-spin-try", 1, 2, 1, 1, [(0, None)], [["l:0", "u:0", "tl:1"], ["tl:0", "u:0", "l:1", "u:0"]]),
    ("two-lock-rollback", 1, 2, 1, 1, [(0, 1), (1, 0), (0, 0), (None, 1)],
     [["lt:0", "ut:0", "lt:2"], ["lt:1", "ut:0", "lt:3", "ut:0"]]),
    ("setter-order", 1, 2, 1, 1, [("r0", 1), ("r1", 1), ("r0", 0)],
     [["lt:0", "ut:0", "lt:2", "a:0:1"], ["lt:1", "ut:0", "p:0", "lt:2"]]),
    ("queue-add-pop", 1, 2, 1, 1, [(0, 1), (1, None), (None, None)],
     [["a:0:0", "a:0:1", "p:0", "ut:0"], ["tp:0", "a:0:2", "p:0", "qs:0"]]),
    ("two-queues-shared-locks", 1, 2, 2, 1, [(0, 1), (1, 0)],
     [["a:0:0", "p:0", "ut:0", "p:1"], ["a:1:1", "p:1", "ut:0", "tp:0"]]),
    ("queue-vs-user-lock", 1, 2, 1, 1, [(0, 1), (1, None)],
     [["a:0:1", "a:0:0", "p:0", "p:0"], ["tl:1", "tp:0", "u:0", "tp:0"]]),
    ("counters", 1, 1, 1, 2, [(0, None)], [["i:0", "d:1", "pa:0:5", "ld:0"], ["d:0", "pi:1", "ps:0:3", "oa:1:-2"]]),
    ("atomic-max", 1, 1, 1, 2, [(0, None)], [["mx:0:5", "ml:0", "mx:0:2", "mx:1:7"], ["mx:0:9", "mx:0:3", "ml:0", "mx:1:4"]]),
    ("photons", 4, 1, 1, 1, [(0, None)], [["gs", "ap:0:150", "ap:0:100", "fb:1"], ["gs", "ap:0:200", "fb:0"]]),
    # one slot, handed from one owner to the next: the new owner must find it empty and keep what it stores
    ("buffer-reuse", 1, 1, 1, 1, [(0, None)], [["gs", "ap:0:50", "fb:0", "gs", "ap:0:30", "fb:0"], ["g", "ap:0:70", "ld:0", "fb:0"]]),
]


def exhaustive(L):
    ops = []
    for fam in FAMILIES:
        name, size, nl, nq, nc, deps, progs = fam
        for bits_ in itertools.product("01", repeat=L):
            ops.append(line(size, nl, nq, nc, deps, progs, "X", "".join(bits_)))
    return ops


def rand_prog(rng, kinds, length, size, nlocks, nqueues, nctr, ntasks):
    p = []
    for _ in range(length):
        k = rng.choice(kinds)
        if k in ("g", "gs"):
            p.append(k)
        elif k in ("f", "fb", "u", "ut"):
            p.append("%s:%d" % (k, rng.randint(0, 2)))
        elif k == "ap":
            p.append("ap:%d:%d" % (rng.randint(0, 2), rng.choice([0, 1, 50, 100, 150, 199, 200])))
        elif k in ("l", "tl"):
            p.append("%s:%d" % (k, rng.randrange(nlocks)))
        elif k == "lt":
            p.append("lt:%d" % rng.randrange(ntasks))
        elif k == "a":
            p.append("a:%d:%d" % (rng.randrange(nqueues), rng.randrange(ntasks)))
        elif k in ("p", "tp", "qs"):
            p.append("%s:%d" % (k, rng.randrange(nqueues)))
        elif k == "mx":
            p.append("mx:%d:%d" % (rng.randrange(nctr), rng.randint(-3, 40)))
        elif k in ("i", "d", "pi", "ld", "ml"):
            p.append("%s:%d" % (k, rng.randrange(nctr)))
        elif k in ("pa", "oa", "ps"):
            p.append("%s:%d:%d" % (k, rng.randrange(nctr), rng.randint(-5, 9)))
        elif k == "lf":
            p.append("lf:%d:%d" % (rng.randrange(nctr), rng.randint(-5, 9)))
    return p


def rand_sched(rng, n, length):
    """bursty random schedule: adversarial preemption = short bursts, long runs = near-sequential"""
    s = []
    style = rng.choice(["uniform", "bursty", "bursty", "starve"])
    while len(s) < length:
        t = rng.randrange(n)
        if style == "uniform":
            k = 1
        elif style == "bursty":
            k = rng.choice([1, 1, 2, 3, 5, 8])
        else:
            k = rng.choice([1, 12]) if t == 0 else rng.choice([1, 2])
        s += [t] * k
    return "".join(str(t) for t in s[:length])


def rand_deps(rng, nlocks, ntasks):
    """(x, y) = set_dependency(x); set_extra_dependency(y); x = "r<k>" = the two calls in the other order"""
    deps = []
    for _ in range(ntasks):
        a = rng.choice([None] + list(range(nlocks)) * 3)
        b = rng.choice([None, None] + list(range(nlocks)) * 2)
        if a is not None and b is not None and rng.random() < 0.2:
            a = "r%d" % a
        deps.append((a, b))
    return deps


def setup_contract_lines():
    """class-level contract of Task, single thread: every sequence of at most one set_dependency and one
    set_extra_dependency call (both orders, resources 0/1, equal or different), with none / the first / the
    second resource held by somebody else; then lock_dependency directly and through a queue"""
    ops = []
    for x in [None, 0, 1, "r0", "r1"]:
        for y in [None, 0, 1]:
            for pre in ([], ["tl:0"], ["tl:1"]):
                prog = pre + ["lt:0", "ut:0", "a:0:0", "p:0", "ut:0", "a:0:0", "tp:0", "ut:0"]
                ops.append(line(1, 2, 1, 1, [(x, y)], [prog], "X", "0"))
    return ops


def random_line(rng):
    kind = rng.choice(["pool", "pool", "sync", "sync", "mixed", "photons", "counters"])
    n = rng.choice([2, 2, 3, 3, 4])
    nlocks, nqueues, nctr, ntasks = rng.randint(1, 4), rng.randint(1, 2), rng.randint(1, 3), rng.randint(1, 5)
    deps = rand_deps(rng, nlocks, ntasks)
    size = rng.choice([1, 2, 2, 3, 3])
    if kind == "pool":
        kinds = ["g", "gs", "gs", "f", "f", "fb"]
    elif kind == "sync":
        kinds = ["a", "a", "p", "p", "tp", "ut", "ut", "lt", "tl", "u", "l", "qs"]
    elif kind == "counters":
        kinds = ["i", "d", "pi", "pa", "oa", "ps", "ld", "mx", "mx", "ml"]
    elif kind == "photons":
        kinds = ["gs", "ap", "ap", "fb", "gs"]
    else:
        kinds = ["g", "gs", "f", "fb", "a", "p", "tp", "ut", "lt", "tl", "u", "i", "d", "qs", "ld", "mx", "ml"]
    progs = [rand_prog(rng, kinds, rng.randint(2, 8), size, nlocks, nqueues, nctr, ntasks) for _ in range(n)]
    if kind == "photons":
        # add_photons on a full pool is undefined behaviour in the C++ (index == size is
        # dereferenced): keep the pool large enough for every request
        size = sum(1 for p in progs for c in p if c.split(":")[0] in ("g", "gs", "ap")) + 1
    return line(size, nlocks, nqueues, nctr, deps, progs, "X", rand_sched(rng, n, rng.randint(10, 90))), kind


def solo_lines(rng, count):
    """one thread: every pop runs without interference, so pop_available applies to each of them"""
    ops = []
    for _ in range(count):
        nlocks, ntasks = rng.randint(1, 3), rng.randint(1, 5)
        deps = rand_deps(rng, nlocks, ntasks)
        kinds = ["a", "a", "a", "p", "p", "tp", "ut", "tl", "u", "lt", "qs"]
        prog = rand_prog(rng, kinds, rng.randint(4, 14), 1, nlocks, 2, 1, ntasks)
        ops.append(line(1, nlocks, 2, 1, deps, [prog], "X", "0"))
    return ops


def adversarial_lines(rng, count):
    """pools of size 2-3 that fill up and wrap, 3-4 threads, preemption right after the flag CAS"""
    ops = []
    for _ in range(count):
        size = rng.choice([2, 3])
        n = rng.choice([3, 4])
        progs = []
        for t in range(n):
            p = []
            for _ in range(rng.randint(2, 4)):
                p += [rng.choice(["g", "gs", "gs"]), "f:%d" % rng.randint(0, 1)] if rng.random() < 0.7 else [rng.choice(["g", "gs"])]
            progs.append(p)
        # schedule: a thread runs get up to and including the CAS (2-3 atomic operations), is
        # preempted, the others run whole calls
        s = []
        while len(s) < 60:
            t = rng.randrange(n)
            s += [t] * rng.choice([2, 3, 3, 6, 7])
        ops.append(line(size, 1, 1, 1, [(0, None)], progs, "X", "".join(map(str, s[:60]))))
    return ops


def maintenance_lines(rng, count):
    """the maintenance calls of ThreadSafeVector between parallel phases: any history (1-2 threads, the
    second one completes first), then clear / clear_fast / clear_after(k) / get_free_elements(n), then the
    pool is used again: filled to capacity (one request more must report "full"), released, filled again;
    get_number_of_active_elements is read along the way"""
    ops = []
    for _ in range(count):
        size = rng.choice([1, 2, 2, 3])
        two = rng.random() < 0.5
        hist = []
        held = 0                       # slots thread 0 holds (the other thread has finished by then)
        for _ in range(rng.randint(0, 5)):
            k = rng.choice(["gs", "gs", "gs", "f", "fb", "ap"])
            if k == "gs" and held < size:
                hist.append("gs"); held += 1
            elif k in ("f", "fb") and held > 0:
                hist.append("%s:%d" % (k, rng.randint(0, 2))); held -= 1
            elif k == "ap" and held > 0:
                hist.append("ap:0:%d" % rng.randint(1, 30))
        kind = rng.choice(["cl", "cl", "cl", "cf", "ca", "gfe"])
        mid = []
        if kind == "cl":
            mid = ["cl"]; held = 0
        elif kind == "cf":
            # clear_fast is only correct when nothing is held: release everything first (mostly)
            if rng.random() < 0.8:
                mid = ["f:0"] * held + ["cf"]; held = 0
            else:
                mid = ["cf"]
        elif kind == "ca":
            # premise of the source: the first k slots are in use -> take them as a block first
            n = rng.randint(0, size)
            k = rng.randint(0, n)
            mid = ["cl", "gfe:%d" % n, "ca:%d" % k]; held = k
        else:
            n = rng.randint(0, size)
            mid = ["cl", "gfe:%d" % n]; held = n
        free = size - held
        again = ["na"] + ["gs"] * free + ["gs", "na"] + ["f:0"] * size + ["na"] + ["gs"] * size + ["na", "cl", "na"]
        progs = [hist + mid + again]
        sched = "0"
        if two:
            other = []
            for _ in range(rng.randint(1, 3)):
                other += [rng.choice(["gs", "g"]), "f:0"]
            # the calls are only legal between phases: thread 1 signals the end of its phase, thread 0 waits
            other.append("i:0")
            progs = [hist + ["aw:0:1"] + mid + again, other]
            sched = rand_sched(rng, 2, rng.randint(4, 30))
        ops.append(line(size, 1, 1, 1, [(0, None)], progs, "X", sched))
    return ops


def buffer_reuse_lines(rng, count):
    """deterministic schedules on a pool of 1-2 buffers that are filled, released and handed to the next
    requester: with the yield point of patches/hook_c08_memoryspace.diff a switch can fall between the wipe
    and the release of free_buffer (never enough packets to fill a buffer: add_photons needs no new one)"""
    ops = []
    for _ in range(count):
        size = rng.choice([1, 1, 2])
        n = rng.choice([2, 2, 3])
        progs = []
        for t in range(n):
            p = []
            for _ in range(rng.randint(1, 3)):
                p.append(rng.choice(["g", "gs", "gs"]))
                for _ in range(rng.randint(1, 2)):
                    p.append("ap:0:%d" % rng.randint(1, 40))
                if rng.random() < 0.3:
                    p.append("ld:0")
                p.append("fb:0")
            progs.append(p)
        s = []
        while len(s) < 70:
            s += [rng.randrange(n)] * rng.choice([1, 2, 5, 6, 7, 8, 9])
        ops.append(line(size, 1, 1, 1, [(0, None)], progs, "X", "".join(map(str, s[:70]))))
    return ops


def buffer_hammer_lines(rng, count):
    """real concurrency, oversubscribed (more threads than cores) on an almost-full MemorySpace: every
    owner checks that the buffer it is handed is empty, fills it with a pattern (owner id, sequence) and
    checks before free_buffer that its pattern is intact (harness oracles; nothing to compare with the model)"""
    ops = []
    ncpu = os.cpu_count() or 8
    for k in range(count):
        nth = max(24, 2 * ncpu) if k % 2 == 0 else max(16, ncpu + 8)
        size = nth + 2 if k % 3 else nth - 3
        body = rng.choice([["gs", "fb:0"], ["gs", "ap:0:7", "fb:0"], ["gs", "ld:0", "fb:0"], ["gs", "fb:0", "gs", "ap:0:3", "i:0", "fb:0"]])
        progs = [body * 4 for _ in range(nth)]
        ops.append(line(size, 1, 1, 1, [(0, None)], progs, "G", "%dx%d" % (rng.randrange(10 ** 6), 400)))
    return ops


def free_lines(rng, count):
    """real concurrency (no baton): only schedule-independent facts are printed"""
    ops = []
    for k in range(count):
        n = rng.choice([2, 4, 6, 8])
        nctr, nlocks, ntasks = 3, 3, 4
        deps = rand_deps(rng, nlocks, ntasks)
        progs = []
        if k % 4 == 2:
            # hammer: many threads update the same counters back to back (lost updates show up
            # in the final sums; LockFree::add has no yield hook, so this is its only tie)
            progs = [[rng.choice(["lf:0:1", "lf:0:1", "lf:0:-2", "lf:1:3", "i:0", "d:0", "pa:0:3", "pi:1"]) for _ in range(400)]
                     for _ in range(8)]
            ops.append(line(2, nlocks, 2, nctr, deps, progs, "F", str(rng.randrange(10 ** 6))))
            continue
        if k % 4 == 0:
            # hammer for AtomicValue::max: interleaved increasing arguments, every thread re-reads the
            # cell after its own call returned (value >= own argument, never decreasing)
            nth = 8
            progs = []
            for t in range(nth):
                pr = []
                for j in range(300):
                    pr.append("mx:0:%d" % (j * nth + t + 1))
                    if j % 3 == 0:
                        pr.append("ml:0")
                    if j % 7 == 0:
                        pr.append("mx:1:%d" % rng.randint(0, 5000))
                progs.append(pr)
            ops.append(line(2, nlocks, 2, nctr, deps, progs, "F", str(rng.randrange(10 ** 6))))
            continue
        if k % 2 == 0:
            mode = "F"
            kinds = ["i", "d", "pi", "pa", "oa", "ps", "lf", "lf", "g", "f", "fb", "a", "mx", "ml"]
        else:
            mode = "G"   # oracle-only: pops and task locks included, results depend on the schedule
            kinds = ["a", "a", "p", "tp", "ut", "ut", "lt", "tl", "u", "g", "gs", "f", "i", "lf"]
        for t in range(n):
            progs.append(rand_prog(rng, kinds, rng.randint(40, 150), 8, nlocks, 2, nctr, ntasks))
        ngets = sum(1 for p in progs for c in p if c in ("g", "gs"))
        nadds = sum(1 for p in progs for c in p if c.startswith("a:"))
        if nadds > 250:
            continue
        ops.append(line(ngets + 1, nlocks, 2, nctr, deps, progs, mode, str(rng.randrange(10 ** 6))))
    return ops


def inner_max_yields():
    """does AtomicValue::max of the tree under test yield before its compare-exchange / reload?
    (hook patch seeded/_hook_c08.diff; until it is committed H1 fires once at the entry of max)"""
    try:
        txt = open(os.path.join(vlib.REPO, "src", "AtomicValue.hpp")).read()
    except OSError:
        return False
    return 'CMAC_VERIF_YIELD("max_cas")' in txt


def memoryspace_yield():
    """is the yield point between wipe and release of MemorySpace::free_buffer present
    (patches/hook_c08_memoryspace.diff)?"""
    try:
        txt = open(os.path.join(vlib.REPO, "src", "MemorySpace.hpp")).read()
    except OSError:
        return False
    return 'CMAC_VERIF_YIELD("free_buffer")' in txt


EXPECTED_TAGS_INNER = ["getMaxCas>getTotal", "getMaxCas>getMax", "cMaxCas>idle", "cMaxCas>cMax"]

EXPECTED_TAGS = [
    "getMax>getMaxCas", "cMax>cMaxCas", "cLoadMx>idle",
    "getCheck>getInc", "getCheck>idle", "getInc>getCas", "getCas>getInc", "getCas>getCount", "getCount>getMax",
"getTotal>idle", "getTotal>apPlace", "freeUnlock>freeDec", "freeDec>idle",
    "lockSpin>lockSpin", "lockSpin>idle", "lockTry>idle", "unlockL>idle",
    "tl0>idle", "tl0>tl1", "tl0>popScan", "tl0>popRemove", "tl1>idle", "tl1>tlBack", "tl1>popRemove",
    "tlBack>idle", "tlBack>popScan", "tu1>tu0", "tu0>idle",
    "addLock>addLock", "addLock>addBody", "addUnlock>idle", "popLock>popLock", "popLock>popInit",
    "tryPopLock>idle", "tryPopLock>popInit", "popUnlockT>idle", "popUnlockN>idle",
    "cInc>idle", "cDec>idle", "cPostInc>idle", "cPreAdd>idle", "cPostAdd>idle", "cPreSub>idle", "cLoad>idle",
    "lfLoad>lfCas", "lfCas>idle", "lfCas>lfCas",
    "setUnf>idle", "loadNum>idle", "addUnlockK>numInc", "numInc>idle", "numInc>relDec", "numInc>retire",
    "relDec>relDec", "relDec>addLock", "relDec>retire", "retire>idle",
]


def cmp(a, b, op):
    # the implementation line may carry a " #CANDIDATE:…" tag (class-level contract of Task that fails
    # for a setter order no call site uses): not part of the comparison
    return vlib.strip_branch(a) == vlib.strip_branch(b)


def run(ctx):
    ctx.level = "proof"
    ctx.assumptions += [
        "sequential consistency: every AtomicValue member (C++11 std::atomic, default seq_cst ordering) is one atomic transition of an interleaving semantics; no weaker memory model is considered",
        "AtomicValue::max is modelled as its individual atomic operations (load; compare-exchange; on failure reload and recompute); compare_exchange_weak in LockFree::add never fails spuriously in the model (a spurious failure only repeats the loop)",
        "the plain (non-atomic) code between two atomic operations is a separate transition of the model, the reads of TaskQueue::_current_queue_size outside the queue lock are ordinary reads of the latest value",
        "TaskQueue capacity, size_t wrap-around of the cursor and of the counters are not modelled (unbounded Nat / Int); assertions are compiled out (HAVE_ASSERTIONS off) as in the configured build",
        "callers free / unlock only what they hold (the model's free/unlock calls take the j-th owned slot / held lock); add_photons on an exhausted pool is undefined behaviour in the C++ and is a stuck state of the model",
        "LockFree.hpp: only the integer compare-exchange loop is modelled (counter_invariant); floating-point addition is not associative, so for doubles the statement is only that no update is lost",
        "hydro worker loop (TaskBasedRadiationHydrodynamicsSimulation.cpp): the fragment after unlock_dependency() (children loop, pre_increment, pre_decrement), the initial add_task/pre_increment loop and set_number_of_unfinished_parents are modelled as calls `release`, `seed`, `setUnf`; the harness transcribes the fragment around the real Task/TaskQueue/AtomicValue members; uint8/uint32 wrap-around of the counters not modelled",
        "refinement to the abstract lock-level spec (Model/AtomicsSpec.lean) covers the lock/queue part only: that executing a task touches nothing outside the resources it declares is not in scope",
    ]
    ok = ctx.obligations("CMacVerif.Props.C08", ["drv_c08"])
    inc, libs = build_flags()
    h = vlib.build_harness("c08", extra=inc, libs=libs)
    drv = vlib.driver("drv_c08")
    if not ok:
        return
    rng = ctx.rng
    inner = inner_max_yields()
    ms_hook = memoryspace_yield()
    ctx.cov["atomic_max_inner_yields"] = inner
    ctx.cov["memoryspace_free_buffer_yield"] = ms_hook
    if not ms_hook:
        ctx.assumptions.append("MemorySpace::free_buffer has no yield point between its two statements in this tree (patches/hook_c08_memoryspace.diff "
                               "not applied): schedule replay switches threads only at atomic operations, so the order wipe-then-release is tied to the "
                               "code by the theorems (owner_writes_only, handed_out_buffer_is_empty) and, on the implementation, by the oversubscribed "
                               "buffer-hammer lines (content oracles) only")
    if not inner:
        ctx.assumptions.append("AtomicValue::max has no yield inside its loop in this tree (hook patch seeded/_hook_c08.diff not applied): "
                               "schedule replay cannot preempt between its load and its compare-exchange; the interleavings inside max are covered "
                               "by the theorems (max_monotone, max_is_maximum) and, on the implementation, only by the free-running hammer lines")
    L = ctx.budget(7, 12)
    streams = []
    corpus = vlib.corpus_ops("C08")
    if corpus:
        streams.append(("corpus", corpus))
    streams.append(("task-setup-contract", setup_contract_lines()))
    streams.append(("exhaustive-2-threads", exhaustive(L)))
    rnd, kinds = [], {}
    for _ in range(ctx.budget(1500, 50000)):
        l, k = random_line(rng)
        rnd.append(l)
        kinds[k] = kinds.get(k, 0) + 1
    streams.append(("random-schedules", rnd))
    streams.append(("adversarial-pool", adversarial_lines(rng, ctx.budget(400, 15000))))
    streams.append(("solo-pops", solo_lines(rng, ctx.budget(300, 8000))))
    streams.append(("hydro-counter-protocol", hydro_lines(rng, ctx.budget(300, 8000))))
    streams.append(("free-running", free_lines(rng, ctx.budget(40, 500))))
    streams.append(("maintenance-calls", maintenance_lines(rng, ctx.budget(250, 6000))))
    streams.append(("buffer-reuse", buffer_reuse_lines(rng, ctx.budget(300, 8000))))
    streams.append(("buffer-hammer", buffer_hammer_lines(rng, ctx.budget(12, 60))))
    ctx.cov["rule"] = ("schedule replay of the real containers (hook H1, baton scheduler, real std::threads): "
                       "every schedule prefix of length %d for %d two-thread program pairs (completed round-robin), "
                       "seeded random bursty/starving schedules for 2-4 threads over random programs/pool sizes 1-3/task tables, "
                       "adversarial full-pool/wrap schedules, plus free-running real concurrency with jitter (oracles only + schedule-independent sums); "
                       "compared: every returned value in schedule order and the final shared state, identical strings; "
                       "distinct = distinct op line; non-trivial = at least one CAS failure, spin, rollback, skipped queue entry or full pool in the model run"
                       % (L, len(FAMILIES)))
    ctx.cov["exhaustive"] = True
    ctx.cov["random_kinds"] = kinds
    ctx.cov["tolerance"] = "exact (strings identical)"
    total, same = 0, 0
    candidates = {}
    nontriv_tags = ("getCas>getInc", "getCheck>idle", "lockSpin>lockSpin", "tlBack", "tl0>popScan", "tl0>idle", "tl1>tlBack",
                    "addLock>addLock", "popLock>popLock", "tryPopLock>idle", "lfCas>lfCas", "lockTry>idle")
    expected = EXPECTED_TAGS + (EXPECTED_TAGS_INNER if inner else []) + (["freeYield>freeUnlock"] if ms_hook else [])
    for name, ops in streams:
        if not ops:
            continue
        xmode = "X" + ("I" if inner else "") + ("M" if ms_hook else "")
        if xmode != "X":
            ops = [o.replace(" | X ", " | %s " % xmode) for o in ops]
        nmis, impl, model, orc = ctx.correspond(name, h, drv, ops, cmp=cmp,
                                                oracle_key=lambda what, grp: "c08:" + what.split("(")[0].split()[0])
        total += len(ops)
        same += len(ops) - nmis
        for op, ml in zip(ops, model):
            ctx.count()
            tags = ml.split(" #")[1].split(",") if " #" in ml else []
            for t in tags:
                if t and ">>" not in t:
                    ctx.branch(t)
            if "STUCK" in ml:
                ctx.branch("stuck-aborted")
            ctx.distinct(op, nontrivial=any(any(t.startswith(x) or x in t for x in nontriv_tags) for t in tags))
        for op, il in zip(ops, impl):
            if " #CANDIDATE:" in il:
                for cnd in il.split(" #CANDIDATE:")[1].split(":"):
                    key = cnd.split("(")[0]
                    ent = candidates.setdefault(key, {"count": 0, "example_op": op[:300], "example": cnd})
                    ent["count"] += 1
        if impl:
            ctx.sample({"stream": name, "op": ops[0], "impl": impl[0][:300]})
    ctx.cov["bit_exact_rate"] = (same / total) if total else 0.0
    ctx.cov["candidate_findings"] = candidates
    for k, v in sorted(candidates.items()):
        ctx.notes.append("candidate finding (class-level contract of Task for a setter order no call site uses; not counted as a "
                         "violation): %s x%d, e.g. %s" % (k, v["count"], v["example_op"]))
    missing = [t for t in expected if t not in ctx.cov["branch_histogram"]]
    ctx.cov["transitions_never_taken"] = missing
    if missing and ctx.thorough:
        ctx.notes.append("coverage gate: model transitions never taken: " + ", ".join(missing))
        ctx.broken_obligation("insufficient evidence: model transitions never exercised by the generated schedules: " + ", ".join(missing))


def replay(ctx, path):
    inc, libs = build_flags()
    return vlib.generic_replay(ctx, path, "c08", "drv_c08", cmp=cmp, harness_kw={"extra": inc, "libs": libs})


MANIFEST = dict(
    category="proof",
    text=("Lean 4 theorems over an interleaving model at the granularity of single AtomicValue operations (plain code between two atomic "
          "operations is a separate transition), each for every number of threads, every program per thread, every schedule (List Nat) and "
          "every pool size / task table: lock_mutex (+lock_count, lock_held_once), slot_unique (+slot_count, owned_disjoint), quiescent_count "
          "(general form with pending increments/decrements, owner form count = slots in callers' hands, number_taken_nonneg), counter_linear "
          "(+counter_invariant, incl. the LockFree::add compare-exchange loop), queue_multiset, pop_unique, pop_holds_locks (uses the queue "
          "lock's mutual exclusion for the re-read of _queue[index]; +task_holds_locks, queue_body_exclusive), rollback, add_photons_conserves "
          "(+add_photons_no_loss: no buffer above PHOTONBUFFER_SIZE, free slot = empty buffer, nothing dropped, for clients that release "
          "through free_buffer), and the progress statements slot_released, wraparound (any cursor value, pool full except one slot) and "
          "pop_available in their obstruction-free form (the thread runs without interference). Task-level atomicity assumed by C07/C01 is discharged "
          "at this level: running_tasks_conflict_free (any two running tasks have disjoint declared lock sets = guard of Worker.acquire), "
          "pop_is_atomic_acquire (refinement: every execution projects - acquire at the atomic operation that takes the LAST lock, finish at the "
          "first unlock of unlock_dependency, add at the add_task body - to an enabled execution of the abstract lock-level spec "
          "Model/AtomicsSpec.lean; +acquire_guard, acquire_at_most_once), failed_pop_changes_nothing (stutter form + memory form), and the hydro "
          "worker-loop counter protocol hydro_counter / hydro_counter_zero (number_of_tasks is never 0 while a task is queued or running, once "
          "the initial loop is over). AtomicValue::max at the level of its load / compare-exchange / reload steps: max_monotone (never decreases, from "
          "any state), max_is_maximum (+max_general with pending calls). MemorySpace::free_buffer as wipe-then-release: owner_writes_only (while a thread "
          "holds slot i no other thread writes buffer i) and handed_out_buffer_is_empty. Class-level contract of Task's setters (setupDeps models "
          "set_dependency / set_extra_dependency in any call order): task_setup_contract (lock_dependency on free locks succeeds iff the first dependency "
          "was set first or the two resources differ), duplicate_never_handed_out, extra_only_locks_nothing, lock_dependency_returns. Maintenance calls of "
          "ThreadSafeVector (clear, clear_fast = MemorySpace::reset, clear_after, get_free_elements) as operations on quiescent states between parallel "
          "phases (Model/AtomicsMaint.lean): phase_poolInv (all pool invariants after any history of phases and calls), clear_restores_quiescent, "
          "clear_after_restores_quiescent, clear_fast_requires_all_released (empty afterwards iff nothing was held), pool_reusable_after_clear. No theorem is left "
          "_partial. Model tied to the "
          "real containers by deterministic schedule replay of real std::threads through hook H1: returned values in schedule order and the "
          "final shared state identical, plus oracles on the implementation."),
    note=("Trusted: Lean kernel + 3 axioms; sequential consistency of C++11 seq_cst atomics assumed, not derived; non-atomic reads of "
          "TaskQueue::_current_queue_size outside the lock modelled as ordinary reads of the latest value; LockFree.hpp float atomics only get "
          "the counter_linear-style (no lost update) statement on the integer compare-exchange loop; queue capacity and size_t wrap-around of "
          "cursor/counters not modelled (number_taken_nonneg shows the occupancy counter never wraps); progress theorems (slot_released, "
          "wraparound, pop_available) are for an undisturbed thread - under interference another thread may legitimately win the slot/locks; "
          "callers free/unlock only what they hold; add_photons on an exhausted pool is undefined behaviour in the C++ (stuck state in the model). "
          "The release fragment of the hydro worker loop (children / pre_increment / pre_decrement) is transcribed into the harness (real Task, "
          "TaskQueue, AtomicValue members; the loop itself is tied by C07's trace); what a task's sweep touches is outside this model "
          "(lock set = footprint stays C07's/C01's assumption); hydro_counter assumes tasks enter queues only via the initial loop and child release. "
          "Hook H1 fires once at the entry of AtomicValue::max: until seeded/_hook_c08.diff (add-only yields before its compare-exchange and reload) is "
          "committed, schedule replay cannot preempt inside max and its inner interleavings are tied to the code only by free-running hammer lines "
          "(oracles: value >= own argument after the call, per-thread reads never decrease, final = maximum); the check detects the patch and then replays them. "
          "Likewise the order wipe-then-release inside MemorySpace::free_buffer: plain code after the last atomic operation cannot be separated by the "
          "baton scheduler; until patches/hook_c08_memoryspace.diff (one guarded yield between the two statements) is committed it is tied to the code by "
          "the oversubscribed buffer-hammer lines (owners stamp their buffers, check emptiness on hand-out and their stamp before release); with the "
          "patch the deterministic buffer-reuse schedules place a switch there. Candidate findings (reported in evidence.candidate_findings, not "
          "counted as violations because no call site uses these setter orders): set_extra_dependency(x) before set_dependency(x) makes a task that can "
          "never be handed out; set_extra_dependency alone makes lock_dependency succeed without holding the declared resource. The maintenance calls are "
          "modelled under the premise the source states (not thread safe: every thread idle; clear_after: first k slots in use; get_free_elements: "
          "empty vector); the harness evaluates these premises on the real objects before it checks the post-conditions; get_active_elements and "
          "Scheduler.hpp remain unmodelled."),
    technique=("Lean 4 proof: sum-over-threads invariants (frame lemma + local step lemma per program counter + omega, lifted by List.foldl "
               "induction), ownership-frame arguments from slot/lock uniqueness, solo-run inductions for progress + deterministic schedule "
               "replay of real std::threads through a yield hook (baton scheduler), exhaustive schedule prefixes for two threads x short programs"))
