HOOK_COMMITS = []
chk("C19", "proof",
    "Lean theorems over the integer time line for every history of requests (power-of-two step, divides the remainder, <= request and maximum, strictly increasing, never past 2^63, ends exactly, steps sum to the interval, restore = id, largest admissible step); model tied to TimeLine.hpp by exact differential runs (integers and double bit patterns identical).",
    "Trusted: Lean kernel + 3 standard axioms; hand model of TimeLine.hpp; exactness of A*2^k in doubles (no underflow); theorems concern the integer clock, the reported double time is only compared.",
    "Lean 4 proof by induction over the request history + exact differential correspondence", "DESIGN.md §6 C19")
PENDING = "check not built yet in this revision (planned, see DESIGN.md §6); not claimed until the model, theorems and correspondence exist"
for k in ["C01","C02","C03","C04","C05","C06","C07","C08","C09","C10","C11","C12","C13","C14","C16","C17","C18","C20"]:
    NA[k] = PENDING
NA["C15"] = "Voronoi tessellation validity of two ~2000-line floating-point geometric constructions: no executable Lean model of feasible size can express it (DESIGN.md §7); the amenable parts are claimed under C16/C17"
