#!/usr/bin/env python3
"""Part of the C09 translator (used by tools/gen_c09_schemas.py): classification of EVERY data member of every
restartable class, and of every variable of do_simulation that lives across time steps, as

  stored      written by write_restart_file (and assigned from the reader by the restart constructor)
  storedVia   written through an expression of the member (`_output_file != nullptr`, `tellp()`), re-created on restart
  derived     not written; the restart constructor assigns an expression of stored members / literals (shown)
  transient   not written; has a fixed value at every dump point / is set before every use (evidence: a source pattern
              that is checked on every run, or a generated table + Lean theorem)
  rebuilt     constructed from the (stored) parameter file / command line by the same code on both paths
  excluded    excluded by the property statement (wall-clock timers, the re-seeded photon random stream) or pure
              diagnostics that do not feed back into the state
  alias       another name for stored members (union)
  UNCLASSIFIED  none of the above: the member may be lost by a restart -> broken obligation naming the member

The hand tables below carry, for every entry, a reason and a source pattern (file, regex) that must still match;
an entry whose pattern no longer matches does not classify anything (the member falls back to UNCLASSIFIED)."""
import re

# (class, member) -> (kind, reason, file, regex that must match in the comment-stripped file)
HAND = {
    ("CoordinateVector", "_c"): ("alias", "array view of _x, _y, _z (anonymous union)", "CoordinateVector.hpp", r"union\s*\{\s*_datatype_\s+_c\[3\]"),
    ("DensitySubGrid", "_dependency"): ("transient", "ThreadLock, default-constructed unlocked by every constructor; held only while a task of the subgrid runs (no task runs at a dump point: C07 all tasks done)", "DensitySubGrid.hpp", r"ThreadLock\s+_dependency\s*;"),
    ("HydroDensitySubGrid", "_primitive_variable_limiters"): ("transient", "+/-DBL_MAX after update_conserved_variables = value set by both constructors (generated limiters_* tables, Lean transient_fields_reset)", "HydroDensitySubGrid.hpp", r"_primitive_variable_limiters\[10 \* i \+ 2 \* j\] = DBL_MAX"),
    ("HydroDensitySubGrid", "_hydro_tasks"): ("transient", "set by make_hydro_tasks for every subgrid on both paths before the first step (task indices are a function of the layout: C07)", "TaskBasedRadiationHydrodynamicsSimulation.cpp", r"make_hydro_tasks\(\*tasks, cellit\.get_index\(\), \*grid_creator\)"),
    ("AlveliusTurbulenceForcing", "_amplitudes_real"): ("transient", "zeroed at the start of every update_turbulence before use", "AlveliusTurbulenceForcing.hpp", r"_amplitudes_real\[i\] = CoordinateVector<>\(0\.\)"),
    ("AlveliusTurbulenceForcing", "_amplitudes_imaginary"): ("transient", "zeroed at the start of every update_turbulence before use", "AlveliusTurbulenceForcing.hpp", r"_amplitudes_imaginary\[i\] = CoordinateVector<>\(0\.\)"),
    ("DensityGrid", "_emissivities"): ("transient", "legacy grid: filled on demand by the emissivity calculation, empty otherwise", "DensityGrid.hpp", r"std::vector<\s*EmissivityValues\s*\*\s*>\s+_emissivities"),
    ("DensityGrid", "_log"): ("rebuilt", "constructor argument (the Log of the process)", "DensityGrid.hpp", r"_has_hydro\(restart_reader\.read< bool >\(\)\), _log\(log\)"),
    ("LiveOutputManager", "_enabled"): ("rebuilt", "LiveOutputManager is constructed from the parameter file by the same statement on both paths; only _next_output is state", "TaskBasedRadiationHydrodynamicsSimulation.cpp", r"LiveOutputManager live_output_manager\("),
    ("LiveOutputManager", "_output_interval"): ("rebuilt", "as _enabled", "TaskBasedRadiationHydrodynamicsSimulation.cpp", r"LiveOutputManager live_output_manager\("),
    ("LiveOutputManager", "_surface_density_calculator"): ("rebuilt", "as _enabled (accumulators are reset by write_output)", "TaskBasedRadiationHydrodynamicsSimulation.cpp", r"LiveOutputManager live_output_manager\("),
    ("LiveOutputManager", "_surface_density_ionized_calculator"): ("rebuilt", "as _enabled", "TaskBasedRadiationHydrodynamicsSimulation.cpp", r"LiveOutputManager live_output_manager\("),
    ("LiveOutputManager", "_density_PDF_calculator"): ("rebuilt", "as _enabled", "TaskBasedRadiationHydrodynamicsSimulation.cpp", r"LiveOutputManager live_output_manager\("),
    ("LiveOutputManager", "_velocity_PDF_calculator"): ("rebuilt", "as _enabled", "TaskBasedRadiationHydrodynamicsSimulation.cpp", r"LiveOutputManager live_output_manager\("),
}

# variables of do_simulation that are used inside the time loop: name -> (kind, reason, regex in the function body)
HAND_TOP = {
    "memory_logger": ("excluded", "diagnostics (memory statistics)", r"MemoryLogger memory_logger;"),
    "time_logger": ("excluded", "diagnostics (wall-clock time log)", r"TimeLogger time_logger;"),
    "task_plot_i": ("excluded", "diagnostics: the task plot output restarts at 0; does not feed back into the state", r"output_tasks\(task_plot_i,"),
    "restart_generator": ("excluded", "the photon random stream is deliberately re-seeded on restart (property statement); only its output random_seed is stored", r"RandomGenerator restart_generator\(random_seed\);"),
    "random_generators": ("excluded", "per-thread photon random generators, seeded from random_seed on both paths (re-seeded on restart: property statement); not used by a pure-hydro step", r"random_generators\[ithread\]\.set_seed\(random_seed \+ ithread\);"),
    "restart_manager": ("excluded", "owns only wall-clock timers and backup counters (subject of C14)", r"RestartManager restart_manager\(\*params\);"),
    "buffers": ("transient", "photon buffer pool: every buffer is free at the end of a radiation step (C01); untouched by a hydro step", r"MemorySpace \*buffers = new MemorySpace\(number_of_buffers\);"),
    "tasks": ("transient", "hydro tasks are rebuilt by make_hydro_tasks on both paths and reset by reset_hydro_tasks at every step; radiation tasks are removed by tasks->clear_after(radiation_task_offset) at every step", r"tasks->clear_after\(radiation_task_offset\);"),
    "shared_queue": ("transient", "empty at the end of every task loop (C01/C07: loop ends when no task is left)", r"TaskQueue \*shared_queue = new TaskQueue\(shared_queue_size"),
    "queues": ("transient", "empty at the end of every task loop (C07: number_of_tasks == 0)", r"while \(number_of_tasks\.value\(\) > 0\)"),
    "stop_simulation": ("transient", "false at loop entry on both paths; a process that sets it leaves the loop", r"bool stop_simulation = false;"),
}


def base(name):
    return re.match(r"\*?(_?\w+)", name).group(1) if name else None


def names_in(items, out):
    for it in items:
        if it[0] == "rep":
            for w in re.findall(r"\b_\w+", it[1]):
                out.add(w)
            names_in(it[2], out)
        elif it[2]:
            out.add(base(it[2].split(".")[0]))
    return out


def restart_touches(cls):
    """members assigned / sized / opened / allocated anywhere in the restart constructor: {member: [rhs texts]}"""
    res = {}
    if cls.read is None:
        return res
    io, init, body = cls.read
    for (name, op, args) in init:
        res.setdefault(name, []).append(args.strip())
    for m in re.finditer(r"(?<![\w.>])(_\w+)\s*((?:\[[^\]]*\])*)\s*=(?!=)\s*([^;]+);", body):
        res.setdefault(m.group(1), []).append(re.sub(r"\s+", " ", m.group(3).strip()))
    for m in re.finditer(r"(?<![\w.>])(_\w+)\s*\.\s*(resize|open|push_back|clear)\s*\(([^;]*)\)\s*;", body):
        res.setdefault(m.group(1), []).append("%s(%s)" % (m.group(2), re.sub(r"\s+", " ", m.group(3).strip())))
    return res


def classify_class(gen, cname, g):
    """-> list of (class, member, type, kind, detail)"""
    cls = gen.cls(cname)
    bare = cname.split("<")[0]
    witems, wside = gen.class_items(cname, "write")
    ritems, rside = gen.class_items(cname, "read")
    written = names_in(witems, set())
    readt = names_in(ritems, set())
    # members behind iterators and locals: `it->first` with `it = _m.begin()`, `size = _m.size()`, `filepos = _m->tellp()`
    via = {}
    for loc, d in list(wside.defs.items()):
        for mm in re.findall(r"(?<![\w.>])(_\w+)", d):
            if loc in written or any(loc == base(it[2] or "") for it in flat(witems)) or re.search(r"\b%s\b" % re.escape(loc), " ".join(x[1] for x in flat_reps(witems))):
                via.setdefault(mm, []).append("%s = %s" % (loc, re.sub(r"\s+", " ", d)))
    touches = restart_touches(cls)
    rows = []
    for m, (t, dims) in cls.members.items():
        hand = HAND.get((bare, m))
        if m in written:
            if m in readt or m in touches:
                kind, detail = "stored", ""
                if re.search(r"\[\d+\]", " ".join(x[2] or "" for x in flat(witems) if base(x[2] or "") == m)) and dims:
                    # arrays: are all elements written?  (e.g. _number_of_cells[3] is derived)
                    n = gen.consts.get(dims[0]) if not dims[0].isdigit() else int(dims[0])
                    idx = set(int(k) for x in flat(witems) if base(x[2] or "") == m for k in re.findall(r"^\*?%s\[(\d+)\]" % re.escape(m), x[2]))
                    if n and idx and len(idx) < n:
                        rest = sorted(set(range(n)) - idx)
                        rhs = [r for r in touches.get(m, [])]
                        kind, detail = "stored+derived", "elements %s written; elements %s assigned by the restart constructor" % (sorted(idx), rest)
                        src = cls.read[2]
                        for k in rest:
                            if not re.search(r"%s\[%d\]\s*=" % (re.escape(m), k), src):
                                kind, detail = "UNCLASSIFIED", "element %d of %s is neither written nor assigned by the restart constructor" % (k, m)
                rows.append((cname, m, t, kind, detail))
            else:
                rows.append((cname, m, t, "UNCLASSIFIED", "written by write_restart_file but the restart constructor never assigns it"))
            continue
        if m in via and m in touches:
            rows.append((cname, m, t, "storedVia", "; ".join(sorted(set(via[m])))[:300] + " | restart: " + "; ".join(touches[m])[:200]))
            continue
        if hand:
            kind, reason, f, pat = hand
            if re.search(pat, gen.files.get(f, "")):
                rows.append((cname, m, t, kind, reason))
                continue
            rows.append((cname, m, t, "UNCLASSIFIED", "hand classification (%s) no longer supported by the source: pattern %r not found in %s" % (kind, pat, f)))
            continue
        if m in touches:
            rhs = touches[m]
            if all(io_free(r, cls.read[0]) for r in rhs):
                rows.append((cname, m, t, "derived", "restart constructor: " + " ; ".join(rhs)[:300]))
                continue
        rows.append((cname, m, t, "UNCLASSIFIED", "not written, not assigned by the restart constructor, no recorded reason"))
    return rows


def io_free(text, io):
    return re.search(r"\b%s\b" % re.escape(io), text) is None


def flat(items):
    out = []
    for it in items:
        if it[0] == "rep":
            out += flat(it[2])
        else:
            out.append(it)
    return out


def flat_reps(items):
    out = []
    for it in items:
        if it[0] == "rep":
            out.append(it)
            out += flat_reps(it[2])
    return out


def classify_top(gen, g, top):
    """variables of do_simulation declared before the time loop and used inside it"""
    text = gen.files[g.TOP_FILE]
    m = re.search(r"int\s+TaskBasedRadiationHydrodynamicsSimulation::do_simulation\s*\([^)]*\)\s*\{", text)
    ob = m.end() - 1
    body = text[ob + 1:g.match_close(text, ob, "{", "}")]
    nodes = g.parse_stmts(body)
    idx = [i for i, n in enumerate(nodes) if n[0] == "while" and "has_next_step" in n[1]]
    if len(idx) != 1:
        g.fail("time loop of do_simulation not found")
    pre, loop = nodes[:idx[0]], node_text(nodes[idx[0]][2])
    written = names_in(top["write"][0], set())
    rows = []
    decl = re.compile(r"(const\s+)?((?:std::)?[A-Za-z_][\w:]*(?:\s*<.*?>)?)\s*(\*?)\s*(\w+)\s*(=|\(|\{|;|$|,)", re.S)
    seen = set()
    pre_text = node_text(pre)
    for n in pre:
        if n[0] != "stmt":
            continue
        mm = decl.match(n[1])
        if not mm or mm.group(2) in ("return", "delete", "new", "cmac_error", "cmac_warning") or not (mm.group(1) or mm.group(3) or re.match(r"[A-Za-z_:]", mm.group(2))):
            continue
        names = [mm.group(4)]
        if mm.group(5) == ",":
            names += [x.strip().split("=")[0].strip() for x in n[1][mm.end():].split(",")]
        for nm in names:
            if nm in seen or not re.fullmatch(r"[a-zA-Z_]\w*", nm) or not re.search(r"\b%s\b" % re.escape(nm), loop):
                continue
            if re.search(r"\b%s\s*(\(|\.|->)" % re.escape(mm.group(2).split("<")[0]), "") :
                pass
            seen.add(nm)
            t = ((mm.group(1) or "") + mm.group(2) + mm.group(3)).strip()
            if nm in written:
                rows.append(("do_simulation", nm, t, "stored", "" if not t.startswith("Timer") else "wall-clock timer (excluded by the property statement, stored anyway)"))
            elif nm in HAND_TOP:
                kind, reason, pat = HAND_TOP[nm]
                if re.search(pat, body):
                    rows.append(("do_simulation", nm, t, kind, reason))
                else:
                    rows.append(("do_simulation", nm, t, "UNCLASSIFIED", "hand classification (%s) no longer supported by the source: %r not found" % (kind, pat)))
            elif mm.group(1):
                rows.append(("do_simulation", nm, t, "rebuilt", "const: " + re.sub(r"\s+", " ", n[1])[:160]))
            else:
                # every assignment before the loop must come from the parameter file / command line / nullptr / stored objects
                assigns = [re.sub(r"\s+", " ", a) for a in re.findall(r"(?<![\w.>])%s\s*(?:=(?!=)|\()\s*([^;]*)" % re.escape(nm), pre_text)]
                loop_assigned = re.search(r"(?<![\w.>])%s\s*(=[^=]|\+=|-=|\*=|\+\+|--)|(\+\+|--)\s*%s\b" % (re.escape(nm), re.escape(nm)), loop)
                consts = set(re.findall(r"\bconst\s+[\w:<> ]+?[\s\*&](\w+)\s*(?:=|\()", pre_text)) | {r[1] for r in rows if r[3] in ("rebuilt", "stored")}

                def from_known(a):
                    ids = [x for x in re.findall(r"(?<![\w.>:])[a-z_]\w*", re.sub(r'"[^"]*"', "", a)) if x not in ("new", "true", "false", "else", "if", "log")]
                    return all(x in consts or x == nm for x in ids)
                ok = assigns and all(re.search(r"\bparams\b|\bparser\b|nullptr|DBL_MAX", a) or a.strip() in ("", "0", "1") or from_known(a) for a in assigns)
                if ok and not loop_assigned:
                    rows.append(("do_simulation", nm, t, "rebuilt", "from the parameter file / command line on both paths: " + " | ".join(assigns)[:200]))
                else:
                    rows.append(("do_simulation", nm, t, "UNCLASSIFIED", "variable that lives across steps, is %s and is neither written to the restart file nor recorded" % ("changed inside the time loop" if loop_assigned else "not built from the parameter file alone")))
    return rows


def node_text(nodes):
    out = []
    for n in nodes:
        if n[0] == "stmt":
            out.append(n[1])
        elif n[0] == "block":
            out.append(node_text(n[1]))
        elif n[0] == "if":
            out.append("if(" + n[1] + "){" + node_text(n[2]) + "}else{" + node_text(n[3]) + "}")
        else:
            out.append(n[0] + "(" + n[1] + "){" + node_text(n[2]) + "}")
    return ";".join(out)


def classify(gen, g, inst, top):
    rows = []
    for cname in inst:
        if cname in ("CoordinateVector<int_fast32_t>", "CoordinateVector<bool>"):
            continue
        rows += classify_class(gen, cname, g)
    rows += classify_top(gen, g, top)
    return rows
