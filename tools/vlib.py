#!/usr/bin/env python3
"""Shared machinery of the CMacIonize Lean-4 verification checks (see DESIGN.md §3).

Every property check is a small module tools/props/cXX.py with a function run(ctx).  This
library gives it: building (harnesses against /repo's current tree, the whole hooked binary,
the Lean library and drivers), the axiom/sorry audit, running the implementation and the Lean
model on the same operation stream, comparison, replay files, known findings, evidence.
"""
import fcntl
import hashlib
import json
import os
import random
import re
import shutil
import subprocess
import sys
import time

VERIF = os.path.dirname(os.path.dirname(os.path.abspath(__file__)))
REPO = os.environ.get("VERIF_REPO", "/repo")
LEAN = os.path.join(VERIF, "lean")
# one scratch build tree per repository path (VERIF_REPO lets a mutation test run against a
# scratch worktree without touching /repo)
BUILD = os.path.join(VERIF, ".build") if REPO == "/repo" else os.path.join(
    VERIF, ".build", "alt_" + hashlib.sha256(REPO.encode()).hexdigest()[:8])
BIN = os.path.join(BUILD, "bin")
FULL = os.path.join(BUILD, "full")
GUARD = "CMACIONIZE_VERIF"
ALLOWED_AXIOMS = {"propext", "Classical.choice", "Quot.sound"}
TRUSTED_BASE = [
    "Lean 4.33.0 kernel",
    "axioms propext, Classical.choice, Quot.sound (Mathlib v4.33.0 as installed)",
    "hand-written Lean model of the anchored C++ functions (tied by the correspondence run below)",
    "correspondence harness (C++ including /repo's current headers) and comparison rules in tools/",
]


def log(*a):
    print(*a, flush=True)


def sh(cmd, cwd=None, timeout=None, input=None, env=None, check=False):
    e = dict(os.environ)
    if env:
        e.update(env)
    p = subprocess.run(cmd, cwd=cwd, shell=isinstance(cmd, str), stdout=subprocess.PIPE,
                       stderr=subprocess.STDOUT, text=True, timeout=timeout, input=input, env=e)
    if check and p.returncode != 0:
        raise RuntimeError("command failed (%d): %s\n%s" % (p.returncode, cmd, p.stdout[-4000:]))
    return p.returncode, p.stdout


class Lock:
    def __init__(self, name):
        os.makedirs(BUILD, exist_ok=True)
        self.path = os.path.join(BUILD, name + ".lock")

    def __enter__(self):
        self.f = open(self.path, "w")
        fcntl.flock(self.f, fcntl.LOCK_EX)
        return self

    def __exit__(self, *a):
        fcntl.flock(self.f, fcntl.LOCK_UN)
        self.f.close()


# --------------------------------------------------------------------------- building

def ensure_configured():
    """CMake configure of /repo into the scratch tree (generates Configuration.hpp and the data
    location headers).  Re-run on every check: cmake re-reads /repo's CMakeLists."""
    with Lock("cmake"):
        os.makedirs(FULL, exist_ok=True)
        flags = "-Wno-cpp -D%s" % GUARD
        if os.path.exists(os.path.join(FULL, "build.ninja")):
            rc, out = sh(["cmake", FULL])
        else:
            rc, out = sh(["cmake", "-G", "Ninja", "-S", REPO, "-B", FULL,
                          "-DCMAKE_BUILD_TYPE=Release", "-DCMAKE_CXX_FLAGS=" + flags])
        if rc != 0:
            raise RuntimeError("cmake configure failed:\n" + out[-3000:])
    return os.path.join(FULL, "src")


def full_binary(targets=("CMacIonize",)):
    """(Re)build the whole hooked binary from /repo's current tree (incremental)."""
    ensure_configured()
    with Lock("cmake"):
        rc, out = sh(["cmake", "--build", FULL, "-j16", "--target"] + list(targets))
        if rc != 0:
            raise RuntimeError("build of %s failed:\n%s" % (targets, out[-6000:]))
        exe = os.path.join(FULL, "rundir", "CMacIonize")
        if "CMacIonize" in targets and os.path.exists(exe):
            # private copy: every `cmake --build` re-links the binary (CompilerInfo.cpp is
            # regenerated on each build), so a concurrently running check must not execute
            # the file that is being replaced
            os.makedirs(BIN, exist_ok=True)
            priv = os.path.join(BIN, "CMacIonize.%d" % os.getpid())
            shutil.copy2(exe, priv)
            import atexit
            atexit.register(lambda p=priv: os.path.exists(p) and os.unlink(p))
            return priv
    return os.path.join(FULL, "rundir", "CMacIonize")


def build_harness(name, extra=(), opt="-O1", sanitize=False, std="c++11", libs=()):
    """Compile harness/<name>.cpp against /repo's current headers.  -ffp-contract=off so that
    the doubles are the same expression tree as the Lean Float model."""
    cfg = ensure_configured()
    os.makedirs(BIN, exist_ok=True)
    out = os.path.join(BIN, name)
    cmd = ["g++", "-std=" + std, opt, "-g", "-ffp-contract=off", "-Wno-cpp", "-fopenmp",
           "-D" + GUARD, "-I" + os.path.join(REPO, "src"), "-I" + cfg,
           "-I" + os.path.join(VERIF, "harness")]
    # system include directories CMake found for /repo (HDF5, MPI, ...)
    try:
        nin = open(os.path.join(FULL, "build.ninja")).read()
        for inc in sorted(set(re.findall(r"-I(/usr/[^ \n]+)", nin))):
            cmd.append("-I" + inc)
    except OSError:
        pass
    if sanitize:
        cmd += ["-fsanitize=address,undefined", "-fno-sanitize-recover=all"]
    cmd += list(extra) + [os.path.join(VERIF, "harness", name + ".cpp"), "-o", out] + list(libs)
    # the MPI / HDF5 shared libraries CMake links /repo's own binaries with (headers such as
    # DensitySubGrid.hpp pull in <mpi.h> when HAVE_MPI is configured)
    try:
        m = re.search(r"LINK_LIBRARIES = (.*)", nin)
        if m:
            sos = []
            for so in re.findall(r"(/usr/\S+\.so)", m.group(1)):
                if so not in sos:
                    sos.append(so)
            rp = sorted(set(os.path.dirname(so) for so in sos))
            cmd += sos + ["-Wl,-rpath," + ":".join(rp)] if sos else []
    except NameError:
        pass
    rc, o = sh(cmd)
    if rc != 0:
        raise HarnessBuildError(name, o)
    return out


class HarnessBuildError(Exception):
    def __init__(self, name, out):
        super().__init__("harness %s does not compile against the current tree" % name)
        self.name = name
        self.out = out


def lake_build(targets):
    with Lock("lake"):
        rc, out = sh(["lake", "build"] + list(targets), cwd=LEAN, timeout=3600)
    return rc == 0, out


def driver(name):
    return os.path.join(LEAN, ".lake", "build", "bin", name)


# --------------------------------------------------------------------------- audit

AUDIT_TEMPLATE = """import Lean
import %(mod)s
open Lean Elab Command
run_cmd do
  let env ← getEnv
  let some idx := env.getModuleIdx? `%(mod)s | throwError "module not found"
  for n in env.header.moduleData[idx.toNat]!.constNames do
    if n.isInternalDetail then continue
    match env.find? n with
    | some (.thmInfo _) =>
      let axs ← Lean.collectAxioms n
      logInfo m!"AXIOMS {n} :: {axs.toList}"
    | _ => pure ()
"""

FORBIDDEN = re.compile(r"\b(sorry|admit|native_decide|bv_decide|implemented_by|unsafe)\b|^\s*axiom\s|maxHeartbeats\s+0\b")


def strip_comments(text):
    text = re.sub(r"/-.*?-/", lambda m: "\n" * m.group(0).count("\n"), text, flags=re.S)
    text = re.sub(r"--.*", "", text)
    return text


def grep_forbidden(files):
    hits = []
    for f in files:
        try:
            t = strip_comments(open(f, encoding="utf-8").read())
        except OSError:
            continue
        for i, line in enumerate(t.split("\n"), 1):
            if FORBIDDEN.search(line):
                hits.append("%s:%d: %s" % (os.path.relpath(f, VERIF), i, line.strip()[:100]))
    return hits


def lean_closure_files(module):
    """source files of our own library imported (transitively) by module"""
    seen, todo = set(), [module]
    files = []
    while todo:
        m = todo.pop()
        if m in seen:
            continue
        seen.add(m)
        p = os.path.join(LEAN, m.replace(".", "/") + ".lean")
        if not os.path.exists(p):
            continue
        files.append(p)
        for mm in re.findall(r"^import\s+(\S+)", open(p, encoding="utf-8").read(), flags=re.M):
            if mm.startswith("CMacVerif") or mm.startswith("Driver"):
                todo.append(mm)
    return files


def audit(module):
    """returns (theorems: {name: [axioms]}, problems: [str])"""
    os.makedirs(BUILD, exist_ok=True)
    path = os.path.join(BUILD, "Audit_%s.lean" % module.replace(".", "_"))
    with open(path, "w") as f:
        f.write(AUDIT_TEMPLATE % {"mod": module})
    with Lock("lake"):
        rc, out = sh(["lake", "env", "lean", path], cwd=LEAN, timeout=1800)
    thms, problems = {}, []
    src = os.path.join(LEAN, module.replace(".", "/") + ".lean")
    declared = set(re.findall(r"^\s*(?:private\s+)?theorem\s+(\S+)", strip_comments(open(src, encoding="utf-8").read()), flags=re.M))
    for m in re.finditer(r"AXIOMS (\S+) :: \[(.*?)\]", out, flags=re.S):
        if m.group(1).split(".")[-1] not in declared and m.group(1) not in declared:
            continue
        axs = [a.strip() for a in m.group(2).replace("\n", " ").split(",") if a.strip()]
        thms[m.group(1)] = axs
        bad = [a for a in axs if a not in ALLOWED_AXIOMS]
        if bad:
            problems.append("theorem %s depends on %s" % (m.group(1), bad))
    if rc != 0 or not thms:
        problems.append("audit did not run: " + out[-1500:])
    problems += grep_forbidden(lean_closure_files(module))
    return thms, problems


# --------------------------------------------------------------------------- streams

def run_exe(exe, ops_text, timeout=1800, cwd=None, env=None, args=()):
    e = dict(os.environ)
    if env:
        e.update(env)
    # a harness that never returns is reported to the caller as a failed run (status -9, what it printed
    # so far, and a note on stderr) instead of an exception that would leave the check without a verdict
    try:
        timeout = timeout * max(1.0, os.getloadavg()[0] / (os.cpu_count() or 1))
    except OSError:
        pass
    pr = subprocess.Popen([exe] + list(args), stdin=subprocess.PIPE, stdout=subprocess.PIPE, stderr=subprocess.PIPE, text=True, cwd=cwd, env=e)
    try:
        out, err = pr.communicate(ops_text, timeout=timeout)
        return pr.returncode, out, err
    except subprocess.TimeoutExpired:
        pr.kill()
        out, err = pr.communicate()
        return -9, out, (err or "") + "\nTIMEOUT: %s did not return within %.0f s (killed)" % (os.path.basename(exe), timeout)


def split_oracle(stdout):
    """harness output → (answer lines, oracle lines)"""
    ans, orc = [], []
    for l in stdout.split("\n"):
        if l.startswith("ORACLE"):
            orc.append(l)
        elif l != "":
            ans.append(l)
    return ans, orc


def floats_close(a, b, rel, abs_floor=0.0):
    """a, b: decimal bit patterns or 'nan'"""
    if a == b:
        return True
    if a == "nan" or b == "nan":
        return False
    import struct
    x = struct.unpack("<d", struct.pack("<Q", int(a)))[0]
    y = struct.unpack("<d", struct.pack("<Q", int(b)))[0]
    if x == y:
        return True
    if x != x or y != y:
        return False
    return abs(x - y) <= rel * max(abs(x), abs(y)) + abs_floor


def f2bits(x):
    import struct
    return struct.unpack("<Q", struct.pack("<d", float(x)))[0]


def bits2f(b):
    import struct
    return struct.unpack("<d", struct.pack("<Q", int(b)))[0]


# --------------------------------------------------------------------------- known findings

_KF_CACHE = None


def known_findings():
    global _KF_CACHE
    if _KF_CACHE is not None:
        return _KF_CACHE
    path = os.path.join(VERIF, "known_findings.txt")
    res = []
    if os.path.exists(path):
        for l in open(path):
            l = l.strip()
            m = re.match(r"finding:\s+property=(\S+)\s+key=(\S+)\s*(.*)", l)
            if m:
                res.append((m.group(1), m.group(2), m.group(3)))
    _KF_CACHE = res
    return res


# --------------------------------------------------------------------------- source fingerprints

def anchor_files(pid):
    for l in open(os.path.join(VERIF, "properties.jsonl")):
        d = json.loads(l)
        if d["id"] == pid:
            return d["anchors"]["files"]
    return []


def source_fingerprint(pid):
    """sha256 over the anchored source files of the property in the current tree"""
    h = hashlib.sha256()
    for f in sorted(anchor_files(pid)):
        p = os.path.join(REPO, f)
        h.update(f.encode())
        try:
            h.update(open(p, "rb").read())
        except OSError:
            h.update(b"<missing>")
    return h.hexdigest()[:16]


# --------------------------------------------------------------------------- context

class Ctx:
    def __init__(self, pid, tier, seed, replay=None):
        self.pid, self.tier, self.seed, self.replay = pid, tier, seed, replay
        self.rng = random.Random((seed * 1000003) ^ int(hashlib.sha256(pid.encode()).hexdigest()[:8], 16))
        self.t0 = time.time()
        self.level = "proof"
        self.violations = []      # (key, description, replay_path, found_input)
        self.known_hits = []
        self.cov = {"evaluations": 0, "distinct_nontrivial": 0, "rule": "", "samples": [],
                    "obligations": 0, "discharged": 0, "checker_cmd": "", "trusted_base": list(TRUSTED_BASE),
                    "branch_histogram": {}, "correspondence_streams": {}}
        self.assumptions = []
        self.notes = []
        self._distinct = set()
        self.escalated = False
        try:
            base = json.load(open(os.path.join(VERIF, "tools", "fingerprints.json"))).get(pid)
            cur = source_fingerprint(pid)
            self.escalated = base is not None and cur != base
            self.cov["source_fingerprint"] = cur
            self.cov["escalated_by_source_fingerprint"] = self.escalated
        except Exception:
            pass
        os.makedirs(os.path.join(VERIF, "replays"), exist_ok=True)
        os.makedirs(os.path.join(VERIF, "evidence"), exist_ok=True)

    @property
    def thorough(self):
        return self.tier == "thorough"

    def budget(self, quick, thorough):
        """case budget; a quick run on a tree whose anchored sources differ from the validated
        fingerprint is escalated (DESIGN §2.4: effort escalation, never an alarm by itself)"""
        if self.thorough:
            return thorough
        if self.escalated and isinstance(quick, int) and isinstance(thorough, int) and thorough > quick:
            return int(max(quick, min(thorough, round((quick * thorough) ** 0.5))))
        return quick

    # ---- obligations: build Props module + drivers, audit
    def obligations(self, module, drivers=()):
        ok, out = lake_build([module] + list(drivers))
        self.cov["checker_cmd"] = ("cd /verif/lean && lake build %s && lake env lean <audit: collectAxioms over every theorem of the module>" % module)
        if not ok:
            failed = sorted(set(re.findall(r"error: (\S+?\.lean):(\d+)", out)))
            names = []
            for f, ln in failed:
                names.append(self._theorem_at(f, int(ln)))
            self.cov["obligations"] = max(self.cov["obligations"], len(names))
            self.broken_obligation("Lean build of %s failed: %s" % (module, ", ".join(n for n in names if n) or out[-800:]), out)
            return False
        thms, problems = audit(module)
        self.cov["obligations"] = len(thms)
        self.cov["discharged"] = len([t for t, ax in thms.items() if all(a in ALLOWED_AXIOMS for a in ax)])
        self.cov["axioms"] = {t: ax for t, ax in sorted(thms.items())}
        if problems:
            self.cov["discharged"] = min(self.cov["discharged"], len(thms) - 1) if thms else 0
            self.broken_obligation("audit: " + "; ".join(problems)[:1500], "\n".join(problems))
            return False
        if self.thorough:
            with Lock("lake"):
                rc, o = sh(["lake", "env", "leanchecker", module], cwd=LEAN, timeout=3600)
            self.cov["leanchecker"] = "ok" if rc == 0 else "FAILED: " + o[-500:]
            if rc != 0:
                self.broken_obligation("leanchecker rejects %s" % module, o)
                return False
        return True

    def _theorem_at(self, f, ln):
        p = f if os.path.isabs(f) else os.path.join(LEAN, f)
        try:
            lines = open(p, encoding="utf-8").read().split("\n")
        except OSError:
            return "%s:%d" % (f, ln)
        for i in range(min(ln, len(lines)) - 1, -1, -1):
            m = re.match(r"\s*(?:private\s+)?(?:theorem|lemma|def|example|instance)\s+(\S+)", lines[i])
            if m:
                return "%s (%s:%d)" % (m.group(1), os.path.basename(f), ln)
        return "%s:%d" % (f, ln)

    def broken_obligation(self, what, detail=""):
        """a proof obligation / correspondence stream no longer checks and no failing input was found (yet)"""
        self.pending_broken = getattr(self, "pending_broken", [])
        self.pending_broken.append((what, detail))

    # ---- bookkeeping of cases
    def count(self, n=1):
        self.cov["evaluations"] += n

    def distinct(self, key, nontrivial=True):
        if nontrivial:
            self._distinct.add(key if isinstance(key, (str, int, tuple)) else repr(key))

    def branch(self, name, n=1):
        h = self.cov["branch_histogram"]
        h[name] = h.get(name, 0) + n

    def sample(self, s, cap=6):
        if len(self.cov["samples"]) < cap:
            self.cov["samples"].append(s)

    # ---- violations
    def write_replay(self, tag, obj):
        body = json.dumps(obj, indent=1, sort_keys=True)
        h = hashlib.sha256(body.encode()).hexdigest()[:10]
        path = os.path.join(VERIF, "replays", "%s-%s-%s.json" % (self.pid, tag, h))
        with open(path, "w") as f:
            f.write(body + "\n")
        return path

    def violation(self, key, desc, replay_obj, found_input=True):
        """key identifies the failing input / call site (matched against known_findings.txt)"""
        for (p, k, d) in known_findings():
            if p == self.pid and k == key:
                if key not in [x[0] for x in self.known_hits]:
                    self.known_hits.append((key, d or desc))
                return
        if key in [v[0] for v in self.violations]:
            return
        replay_obj = dict(replay_obj)
        replay_obj.update({"property": self.pid, "key": key, "what": desc, "seed": self.seed, "tier": self.tier})
        path = self.write_replay(re.sub(r"[^A-Za-z0-9_.-]", "_", key)[:40], replay_obj)
        self.violations.append((key, desc, path, found_input))

    # ---- the generic correspondence step
    def correspond(self, stream, harness_exe, driver_exe, ops_lines, cmp=None, oracle_key=None,
                   group_start=None, harness_args=(), driver_args=(), describe=None, model_is_spec=None):
        """Run implementation and model on the same lines; compare line by line.
        cmp(impl_line, model_line, op_line) -> bool.  Returns (n_mismatch, impl_lines, model_lines, oracle_lines).
        On a mismatch the minimal group (from the last line for which group_start(op) holds up to
        the mismatching line) is stored and reported as a broken correspondence; oracle lines
        printed by the harness are property violations on the implementation (with replay)."""
        ops_text = "\n".join(ops_lines) + "\n"
        # the implementation harness may not come back at all (a changed lock discipline can make the real
        # code wait for ever): bounded wait, the partial output locates the operation it hangs in
        hang = False
        limit = float(os.environ.get("VERIF_HARNESS_TIMEOUT", "600" if not self.thorough else "3600"))
        try:
            limit *= max(1.0, os.getloadavg()[0] / (os.cpu_count() or 1))
        except OSError:
            pass
        e_i = dict(os.environ)
        pr = subprocess.Popen([harness_exe] + list(harness_args), stdin=subprocess.PIPE, stdout=subprocess.PIPE, stderr=subprocess.PIPE, text=True, env=e_i)
        try:
            out_i, err_i = pr.communicate(ops_text, timeout=limit)
            rc_i = pr.returncode
        except subprocess.TimeoutExpired:
            pr.kill()
            out_i, err_i = pr.communicate()
            rc_i, hang = -9, True
        rc_m, out_m, err_m = run_exe(driver_exe, ops_text, args=driver_args)
        impl, orc = split_oracle(out_i)
        model = [l for l in out_m.split("\n") if l != ""]
        st = self.cov["correspondence_streams"].setdefault(stream, {"lines": 0, "mismatches": 0, "oracle_failures": 0})
        st["lines"] += len(ops_lines)
        if rc_m != 0:
            self.broken_obligation("Lean driver %s failed (rc %d): %s" % (os.path.basename(driver_exe), rc_m, err_m[-300:]))
        if hang:
            k = len(impl)
            grp = self._group(ops_lines, min(k, len(ops_lines) - 1), group_start)
            self.violation("%s:impl-hang" % stream, "implementation harness did not return within %.0f s; it answered %d of %d operations and hangs in the next one" % (limit, k, len(ops_lines)),
                           {"stream": stream, "ops": grp, "stderr": (err_i or "")[-2000:]})
        elif rc_i != 0:
            # sanitizer abort / crash of the implementation: bisect to the line
            k = len(impl)
            grp = self._group(ops_lines, min(k, len(ops_lines) - 1), group_start)
            self.violation("%s:impl-crash" % stream, "implementation harness exited with status %d after %d answers: %s" % (rc_i, k, err_i[-400:]),
                           {"stream": stream, "ops": grp, "stderr": err_i[-2000:]})
        nmis = 0
        first = None
        for i, op in enumerate(ops_lines):
            a = impl[i] if i < len(impl) else "<missing>"
            b = model[i] if i < len(model) else "<missing>"
            same = (a == b) if cmp is None else (a == b or cmp(a, b, op))
            if not same:
                nmis += 1
                if first is None:
                    first = i
        st["mismatches"] += nmis
        st["oracle_failures"] += len(orc)
        for o in orc[:2000]:     # a mutant that fails on every case needs no more than this
            m = re.search(r"line=(\d+)", o)
            i = int(m.group(1)) - 1 if m else 0
            grp = self._group(ops_lines, i, group_start)
            what = re.sub(r"line=\d+\s*", "", o[len("ORACLE"):]).strip()
            key = oracle_key(what, grp) if oracle_key else "%s:%s" % (stream, what.split()[0] if what else "oracle")
            self.violation(key, "property fails on the implementation: " + what, {"stream": stream, "ops": grp, "oracle": o})
        if first is not None:
            grp = self._group(ops_lines, first, group_start)
            a = impl[first] if first < len(impl) else "<missing>"
            b = model[first] if first < len(model) else "<missing>"
            self.broken_obligation("correspondence stream '%s': implementation and Lean model disagree on %d of %d lines; first: op=%r impl=%r model=%r"
                                   % (stream, nmis, len(ops_lines), ops_lines[first], a, b),
                                   json.dumps({"stream": stream, "ops": grp, "impl": a, "model": b}))
            self.last_mismatch = {"stream": stream, "ops": grp, "impl": a, "model": b}
            if model_is_spec:
                # the property says "equals <the formula the model IS>" (a theorem identifies the model
                # with the published formula): a disagreement is then a concrete failing input
                self.violation("%s:%s" % (stream, model_is_spec),
                               "the implementation differs from the specification formula (Lean model proved equal to it) on op %r: implementation %r, specification %r"
                               % (ops_lines[first], a, b), {"stream": stream, "ops": grp, "impl": a, "model": b})
        return nmis, impl, model, orc

    @staticmethod
    def _group(ops, i, group_start):
        if group_start is None:
            return [ops[i]] if ops else []
        j = i
        while j > 0 and not group_start(ops[j]):
            j -= 1
        return ops[j:i + 1]

    # ---- finish
    def finish(self):
        broken = getattr(self, "pending_broken", [])
        found_real = [v for v in self.violations if v[3]]
        if broken and not found_real:
            # property no longer shown to hold and no failing input found
            what = "; ".join(b[0] for b in broken)[:3000]
            obj = {"broken": [b[0] for b in broken], "detail": [b[1][-3000:] for b in broken],
                   "note": "no concrete failing input was found by the violation search; the named theorem / correspondence stream no longer checks"}
            key = "unproved:" + hashlib.sha256(what.encode()).hexdigest()[:8]
            self.violation(key, what, obj, found_input=False)
        elif broken:
            self.notes.append("also broken: " + "; ".join(b[0] for b in broken)[:1500])
        self.cov["distinct_nontrivial"] = len(self._distinct)
        for k, d in self.known_hits:
            log("KNOWN-FINDING: property=%s %s (%s)" % (self.pid, k, d))
        ev = {
            "property_id": self.pid, "tier": self.tier, "seed": self.seed, "level": self.level,
            "coverage": self.cov, "assumptions": self.assumptions, "wall_s": round(time.time() - self.t0, 2),
            "violations": len(self.violations), "notes": self.notes,
            "known_findings_hit": [k for k, _ in self.known_hits],
        }
        if self.level == "other" and "explanation" not in self.cov:
            self.cov["explanation"] = "; ".join(self.notes) or "see DESIGN.md"
        # evidence under /verif/evidence only comes from runs against /repo itself; runs against a
        # scratch copy (VERIF_REPO, mutation tests) write theirs next to their build tree
        evdir = os.path.join(VERIF, "evidence") if REPO == "/repo" else os.path.join(BUILD, "evidence")
        os.makedirs(evdir, exist_ok=True)
        with open(os.path.join(evdir, self.pid + ".json"), "w") as f:
            json.dump(ev, f, indent=1, sort_keys=True, default=str)
            f.write("\n")
        for key, desc, path, found in self.violations:
            log("  violation: %s — %s" % (key, desc[:600]))
            log("VIOLATION property=%s replay=%s%s" % (self.pid, path, "" if found else " no-failing-input-found"))
        if self.violations:
            return 1
        log("OK property=%s tier=%s seed=%d obligations=%d/%d evaluations=%d distinct=%d wall=%.1fs" % (
            self.pid, self.tier, self.seed, self.cov["discharged"], self.cov["obligations"],
            self.cov["evaluations"], self.cov["distinct_nontrivial"], time.time() - self.t0))
        return 0


# --------------------------------------------------------------------------- generic helpers

def strip_branch(l):
    return l.split(" #")[0]


def corpus_ops(pid):
    ops = []
    d = os.path.join(VERIF, "corpus", pid)
    if os.path.isdir(d):
        for f in sorted(os.listdir(d)):
            ops += [l.strip() for l in open(os.path.join(d, f)) if l.strip() and not l.startswith("#")]
    return ops


def generic_replay(ctx, path, harness_name, driver_name, cmp=None, harness_kw=None):
    """re-run the ops of a replay file on implementation and model, print both"""
    obj = json.load(open(path))
    ops = obj.get("ops", [])
    if not ops:
        print(json.dumps(obj, indent=1)[:4000])
        print("replay file names a broken obligation, not an input; nothing to execute")
        return 1
    lake_build([driver_name])
    h = build_harness(harness_name, **(harness_kw or {}))
    text = "\n".join(ops) + "\n"
    rc, out_i, err = run_exe(h, text)
    rc2, out_m, err2 = run_exe(driver(driver_name), text)
    impl, orc = split_oracle(out_i)
    model = [l for l in out_m.split("\n") if l]
    print("ops:\n  " + "\n  ".join(ops))
    print("implementation (rc=%d):\n  %s" % (rc, "\n  ".join(impl)))
    if orc:
        print("property oracle on the implementation:\n  " + "\n  ".join(orc))
    print("model:\n  " + "\n  ".join(model))
    bad = bool(orc) or rc != 0 or len(impl) != len(model)
    for a, b, op in zip(impl, model, ops):
        if not (a == strip_branch(b) or (cmp and cmp(a, b, op))):
            bad = True
    print("REPRODUCED" if bad else "not reproduced")
    return 1 if bad else 0
