#!/usr/bin/env python3
"""Writes seeded/README.md: which check catches which seeded change, by which mechanism."""
import glob, json, os
rows = []
for d in sorted(glob.glob("/verif/seeded/C*")):
    n = os.path.basename(d)
    m = json.load(open(d + "/meta.json"))
    res = {}
    for t in ("quick", "thorough"):
        f = d + "/result_%s.json" % t
        if os.path.exists(f):
            res[t] = json.load(open(f))
    q = res.get("quick", {})
    how = (q.get("how") or [""])[0].replace("violation: ", "")
    mech = "oracle on the implementation (concrete replay)" if q.get("with_failing_input") and "unproved:" not in how else "broken correspondence / proof obligation (no-failing-input-found)"
    if "differs-from-published-fit" in how or "event-not-allowed" in how:
        mech = "model = specification: disagreement reported with the failing input"
    status = "caught (quick, %.0f s)" % q.get("wall_s", 0) if q.get("caught") else ("caught (thorough)" if res.get("thorough", {}).get("caught") else "MISSED")
    # cross-property detection: another property's check run against this seed (seed_run.py --check)
    cross = []
    for f in sorted(glob.glob(d + "/result_quick_C*.json")):
        r = json.load(open(f))
        if r.get("caught"):
            cross.append("%s (%s)" % (r["check"], (r.get("how") or [""])[0].replace("violation: ", "").split(" — ")[0][:50]))
    if cross:
        status += "; also caught by " + ", ".join(cross)
        if status.startswith("MISSED"):
            status = status.replace("MISSED", "not by its own check")
    rows.append((n, m.get("property", n[:3]), ", ".join(m.get("files_changed", []))[:70], (m.get("breaks") or "")[:160].replace("|", "/"),
                 (m.get("needs_to_manifest") or "")[:160].replace("|", "/"), status, how.split(" — ")[0][:70], mech))
with open("/verif/seeded/README.md", "w") as f:
    f.write("# Seeded changes (written by independent sub-agents that saw only the property text)\n\n"
            "Each directory: `patch.diff`, the demonstration (`run_demo.sh <tree> <generated headers>`), `meta.json` "
            "(what it breaks, what it needs to manifest, what I ran to confirm it: 55/55 pinned tests with the change, demo fails with / passes without), "
            "`result_<tier>.json` (outcome of `tools/seed_run.py <name>`: the property's check run against the change).\n\n"
            "| seed | property | files | breaks | needs to manifest | check | first violation key | mechanism |\n|---|---|---|---|---|---|---|---|\n")
    for r in rows:
        f.write("| " + " | ".join(r) + " |\n")
print("wrote seeded/README.md with", len(rows), "rows;", sum(1 for r in rows if r[5].startswith("caught")), "caught")
