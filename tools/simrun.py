"""Running the real (hooked) CMacIonize binary on generated small configurations."""
import os
import shutil
import subprocess
import tempfile
import vlib


def enums():
    exe = vlib.build_harness("enums")
    rc, out, err = vlib.run_exe(exe, "")
    d = {}
    for l in out.split("\n"):
        w = l.split()
        if len(w) == 2:
            d[w[0]] = int(w[1])
    return d


def hydro_param(layout, per, cells_per_subgrid=(2, 2, 2), total_time=0.002, density="homogeneous",
                boundary="reflective", extra="", backups=1, gamma="1.6666666667", box=(1., 1., 1.)):
    nx, ny, nz = layout
    nc = [layout[i] * cells_per_subgrid[i] for i in range(3)]
    bt = lambda p: "periodic" if p else boundary
    b = lambda v: "true" if v else "false"
    dens = {"homogeneous": "DensityFunction:\n  type: Homogeneous\n  density: 1. m^-3\n  temperature: 100. K\n"}.get(density, density)
    return """SimulationBox:
  anchor: [0. m, 0. m, 0. m]
  sides: [%g m, %g m, %g m]
  periodicity: [%s, %s, %s]
DensityGrid:
  number of cells: [%d, %d, %d]
DensitySubGridCreator:
  number of subgrids: [%d, %d, %d]
  periodicity: [%s, %s, %s]
HydroBoundaryManager:
  boundary x high: %s
  boundary x low: %s
  boundary y high: %s
  boundary y low: %s
  boundary z high: %s
  boundary z low: %s
%sTaskBasedRadiationHydrodynamicsSimulation:
  total time: %g s
  do radiation: false
  snapshot time: 1000. s
  number of buffers: 2000
  queue size per thread: 5000
  shared queue size: 5000
  number of tasks: 20000
DensityGridWriter:
  type: AsciiFile
  prefix: snap
Hydro:
  polytropic index: %s
RestartManager:
  output interval: 100000. s
  maximum number of backups: %d
%s""" % (box[0], box[1], box[2], b(per[0]), b(per[1]), b(per[2]), nc[0], nc[1], nc[2], nx, ny, nz, b(per[0]), b(per[1]), b(per[2]),
         bt(per[0]), bt(per[0]), bt(per[1]), bt(per[1]), bt(per[2]), bt(per[2]), dens, total_time, gamma, backups, extra)


def run_sim(binary, param_text, args, threads=1, timeout=120, trace=True, env=None, workdir=None, keep=False):
    """returns dict(rc, timed_out, log, trace_lines, dir)"""
    d = workdir or tempfile.mkdtemp(prefix="verif_sim_")
    with open(os.path.join(d, "run.param"), "w") as f:
        f.write(param_text)
    e = dict(os.environ)
    e["OMP_NUM_THREADS"] = str(threads)
    tr = os.path.join(d, "trace.txt")
    if trace:
        if os.path.exists(tr):
            os.unlink(tr)
        e["CMAC_VERIF_TRACE"] = tr
    if env:
        e.update(env)
    # --dirty: a tree with uncommitted changes must still run (the code refuses by default)
    cmd = [binary, "--params", "run.param", "--threads", str(threads), "--dirty"] + list(args)
    timed_out = False
    # a time limit is a statement about the code, not about the machine: on an oversubscribed machine
    # (other checks running at the same time) the limit grows with the load per core
    try:
        timeout = timeout * max(1.0, os.getloadavg()[0] / (os.cpu_count() or 1))
    except OSError:
        pass
    try:
        p = subprocess.run(cmd, cwd=d, env=e, stdout=subprocess.PIPE, stderr=subprocess.STDOUT, text=True, timeout=timeout)
        rc, log = p.returncode, p.stdout
    except subprocess.TimeoutExpired as ex:
        timed_out, rc = True, -999
        log = ex.stdout.decode() if isinstance(ex.stdout, bytes) else (ex.stdout or "")
    lines = []
    if trace and os.path.exists(tr):
        lines = [l.rstrip("\n") for l in open(tr)]
    res = dict(rc=rc, timed_out=timed_out, log=log, trace=lines, dir=d)
    if not keep and workdir is None:
        shutil.rmtree(d, ignore_errors=True)
    return res
