#!/usr/bin/env python3
"""python3 tools/fingerprints.py --update : record the fingerprints of the anchored sources of every
property for the CURRENT /repo (run after validating the checks on it; committed)."""
import json, os, sys
sys.path.insert(0, os.path.dirname(os.path.abspath(__file__)))
import vlib
fp = {"C%02d" % i: vlib.source_fingerprint("C%02d" % i) for i in range(1, 21)}
if "--update" in sys.argv:
    json.dump(fp, open(os.path.join(vlib.VERIF, "tools", "fingerprints.json"), "w"), indent=1, sort_keys=True)
    print("updated")
else:
    old = json.load(open(os.path.join(vlib.VERIF, "tools", "fingerprints.json")))
    for k in sorted(fp):
        print(k, fp[k], "same" if old.get(k) == fp[k] else "CHANGED")
