#!/usr/bin/env python3
"""seed_run.py <name> [--tier quick|thorough] [--inplace]
Runs the property's check against the seeded change /verif/seeded/<name>/patch.diff.
Default: against a scratch copy of /repo (VERIF_REPO), so that other work using /repo is not
disturbed; --inplace applies it to /repo itself (git apply … git checkout -- .).
Records the outcome in seeded/<name>/result.json."""
import json, os, subprocess, sys, time
name = sys.argv[1]
tier = sys.argv[sys.argv.index("--tier") + 1] if "--tier" in sys.argv else "quick"
inplace = "--inplace" in sys.argv
d = os.path.join("/verif/seeded", name)
pid = json.load(open(os.path.join(d, "meta.json")))["property"]
own_pid = pid
if "--check" in sys.argv:      # run ANOTHER property's check against this seed (cross-property detection)
    pid = sys.argv[sys.argv.index("--check") + 1]
def sh(cmd, **kw):
    p = subprocess.run(cmd, shell=True, stdout=subprocess.PIPE, stderr=subprocess.STDOUT, text=True, **kw)
    return p.returncode, p.stdout
env = dict(os.environ)
if inplace:
    rc, out = sh("git -C /repo apply %s/patch.diff" % d); assert rc == 0, out
else:
    cp = "/tmp/sr_%s" % name
    sh("rm -rf %s; rsync -a --exclude _build /repo/ %s/" % (cp, cp))
    rc, out = sh("git -C %s apply %s/patch.diff" % (cp, d)); assert rc == 0, out
    env["VERIF_REPO"] = cp
# the run regenerates lean/CMacVerif/Gen/*.lean from the CHANGED tree: remember what is there now
import glob
gen_before = {f: open(f).read() for f in glob.glob("/verif/lean/CMacVerif/Gen/*.lean")}
t0 = time.time()
try:
    p = subprocess.run("python3 tools/check.py %s --tier %s" % (pid, tier), shell=True, cwd="/verif", env=env,
                       stdout=subprocess.PIPE, stderr=subprocess.STDOUT, text=True, timeout=7200)
    rc, out = p.returncode, p.stdout
finally:
    if inplace:
        sh("git -C /repo checkout -- .")
    else:
        import hashlib
        sh("rm -rf %s /verif/.build/*alt_%s" % (cp, hashlib.sha256(cp.encode()).hexdigest()[:8]))
# ... and put back exactly the files this run changed (not `git checkout`: the committed copy can be
# older than what a concurrently running check of another property needs)
for f, txt in gen_before.items():
    try:
        if open(f).read() != txt:
            open(f, "w").write(txt)
    except OSError:
        pass
viol = [l for l in out.split("\n") if l.startswith("VIOLATION")]
desc = [l.strip() for l in out.split("\n") if l.strip().startswith("violation:")]
res = {"check": pid, "tier": tier, "exit": rc, "caught": rc == 1 and bool(viol), "wall_s": round(time.time() - t0, 1),
       "violation_lines": viol[:3], "how": [x[:400] for x in desc[:3]],
       "with_failing_input": any("no-failing-input-found" not in v for v in viol)}
json.dump(res, open(os.path.join(d, "result_%s%s.json" % (tier, "" if pid == own_pid else "_" + pid)), "w"), indent=1)
print(name, json.dumps(res)[:700])
