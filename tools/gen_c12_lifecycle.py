#!/usr/bin/env python3
"""Translator for C12 (DESIGN §2.2): regenerates lean/CMacVerif/Gen/Lifecycle.lean (and the C++
table <BUILD>/gen/c12_gen.hpp used by harness/c12.cpp) from /repo's current sources.

For every anchored owner of optional components it extracts, textually,
  * the owned pointer fields (`T *x;`, `std::vector< T * > x;` members; pointer locals declared
    at the top level of do_simulation),
  * what the constructor (initialiser list + body, in order) does to them: set to nullptr, set
    to `new`, set to the result of a factory (object or nullptr), deleted, dereferenced, under
    which conditions (pointer tests stay pointer tests; every other condition becomes a named
    Boolean option),
  * what the destructor (or the tail of do_simulation) does to them,
and writes them as `Stmt` terms of CMacVerif/Model/Lifecycle.lean.

It fails CLOSED: any statement that touches a tracked pointer in a way it does not understand
raises GenError, which the check reports as a broken obligation."""
import os
import re
import sys

sys.path.insert(0, os.path.dirname(os.path.abspath(__file__)))
import vlib

OUT = os.path.join(vlib.LEAN, "CMacVerif", "Gen", "Lifecycle.lean")
OUT_HPP_DIR = os.path.join(vlib.BUILD, "gen")
OUT_HPP = os.path.join(OUT_HPP_DIR, "c12_gen.hpp")


class GenError(RuntimeError):
    pass


def fail(msg):
    raise GenError("gen_c12_lifecycle: " + msg)


# --------------------------------------------------------------------------- text utilities

def strip_comments_and_strings(src):
    """comments removed, preprocessor lines removed, string literals replaced by "@S<n>@" """
    strings = []
    out = []
    i, n = 0, len(src)
    while i < n:
        c = src[i]
        if src.startswith("//", i):
            j = src.find("\n", i)
            i = n if j < 0 else j
        elif src.startswith("/*", i):
            j = src.find("*/", i + 2)
            if j < 0:
                fail("unterminated comment")
            out.append(" ")
            i = j + 2
        elif c == '"':
            j = i + 1
            while j < n and src[j] != '"':
                j += 2 if src[j] == "\\" else 1
            strings.append(src[i + 1:j])
            out.append('"@S%d@"' % (len(strings) - 1))
            i = j + 1
        elif c == "'":
            j = i + 1
            while j < n and src[j] != "'":
                j += 2 if src[j] == "\\" else 1
            out.append("'@C@'")
            i = j + 1
        else:
            out.append(c)
            i += 1
    text = "".join(out)
    # preprocessor lines (with continuations)
    text = re.sub(r"(?m)^[ \t]*#(?:[^\n\\]|\\\n|\\.)*$", "", text)
    return text, strings


def restore_strings(s, strings):
    return re.sub(r"@S(\d+)@", lambda m: strings[int(m.group(1))], s)


OPEN = {"(": ")", "{": "}", "[": "]"}


def match_close(text, i):
    """index of the bracket closing text[i]"""
    stack = [OPEN[text[i]]]
    j = i + 1
    while j < len(text):
        c = text[j]
        if c in OPEN:
            stack.append(OPEN[c])
        elif c in ")}]":
            if c != stack.pop():
                fail("unbalanced brackets near %r" % text[max(0, j - 40):j + 10])
            if not stack:
                return j
        j += 1
    fail("unbalanced brackets near %r" % text[i:i + 60])


def skip_ws(text, i):
    while i < len(text) and text[i].isspace():
        i += 1
    return i


def split_top(text, sep=",", angle=False):
    """split at separator characters outside brackets (optionally also outside <...>)"""
    parts, depth, ang, cur = [], 0, 0, []
    i = 0
    while i < len(text):
        c = text[i]
        if c in OPEN:
            depth += 1
        elif c in ")}]":
            depth -= 1
        elif angle and c == "<":
            ang += 1
        elif angle and c == ">" and ang > 0:
            ang -= 1
        if depth == 0 and ang == 0 and text.startswith(sep, i):
            parts.append("".join(cur))
            cur = []
            i += len(sep)
            continue
        cur.append(c)
        i += 1
    parts.append("".join(cur))
    return parts


def norm(s):
    return re.sub(r"\s+", "", s)


# --------------------------------------------------------------------------- statement parser

class Node:
    def __init__(self, kind, **kw):
        self.kind = kind
        self.__dict__.update(kw)


def parse_stmt(text, i):
    """-> (Node, next index); text[i] is the first non-blank character of a statement"""
    i = skip_ws(text, i)
    if i >= len(text):
        return None, i
    if text[i] == "{":
        j = match_close(text, i)
        return Node("block", body=parse_list(text[i + 1:j])), j + 1
    if text[i] == ";":
        return Node("simple", text=""), i + 1
    m = re.compile(r"(if|for|while|switch)\b\s*\(").match(text, i)
    if m:
        p = m.end() - 1
        q = match_close(text, p)
        head = text[p + 1:q]
        body, j = parse_stmt(text, q + 1)
        if m.group(1) == "if":
            els = None
            k = skip_ws(text, j)
            me = re.compile(r"else\b").match(text, k)
            if me:
                els, j = parse_stmt(text, me.end())
            return Node("if", cond=head, then=body, els=els), j
        return Node("loop", word=m.group(1), head=head, body=body), j
    m = re.compile(r"do\b").match(text, i)
    if m:
        body, j = parse_stmt(text, m.end())
        mw = re.compile(r"\s*while\s*\(").match(text, j)
        if not mw:
            fail("do without while")
        q = match_close(text, mw.end() - 1)
        k = skip_ws(text, q + 1)
        if text[k] != ";":
            fail("do-while without ;")
        return Node("loop", word="do", head=text[mw.end():q], body=body), k + 1
    m = re.compile(r"(else|case|default|try|catch|goto)\b").match(text, i)
    if m:
        fail("unsupported control flow %r near %r" % (m.group(1), text[i:i + 60]))
    # simple statement up to ';' outside brackets
    j = i
    while j < len(text):
        c = text[j]
        if c in OPEN:
            j = match_close(text, j)
        elif c == ";":
            break
        elif c in ")}]":
            fail("unbalanced statement near %r" % text[i:j + 1][-80:])
        j += 1
    if j >= len(text):
        if text[i:].strip():
            fail("statement without ';': %r" % text[i:i + 80])
        return None, j
    s = text[i:j].strip()
    if re.match(r"return\b", s):
        return Node("return", text=s), j + 1
    return Node("simple", text=s), j + 1


def parse_list(text):
    out, i = [], 0
    while True:
        node, i = parse_stmt(text, i)
        if node is None:
            break
        out.append(node)
    return out


# --------------------------------------------------------------------------- IR

SKIP = ("skip",)


def seq(items):
    items = [x for x in items if x != SKIP]
    flat = []
    for x in items:
        if x[0] == "seq":
            flat += list(x[1])
        else:
            flat.append(x)
    if not flat:
        return SKIP
    if len(flat) == 1:
        return flat[0]
    return ("seq", tuple(flat))


def ite(c, t, e):
    if t == SKIP and e == SKIP and c[0] == "opt":
        return SKIP
    return ("ite", c, t, e)


def mutates(ir):
    k = ir[0]
    if k in ("setNull", "setNew", "del"):
        return True
    if k == "seq":
        return any(mutates(x) for x in ir[1])
    if k == "ite":
        return mutates(ir[2]) or mutates(ir[3])
    return False


def ir_fields(ir, acc=None):
    acc = set() if acc is None else acc
    k = ir[0]
    if k in ("setNull", "setNew", "del", "use"):
        acc.add(ir[1])
    elif k == "seq":
        for x in ir[1]:
            ir_fields(x, acc)
    elif k == "ite":
        if ir[1][0] != "opt":
            acc.add(ir[1][1])
        ir_fields(ir[2], acc)
        ir_fields(ir[3], acc)
    return acc


def simplify(ir, used=None):
    """drop a dereference of a pointer that was already dereferenced since its last change (it is
    bad exactly when the first one is); returns (ir, used-set after)"""
    used = set() if used is None else used
    k = ir[0]
    if k == "use":
        if ir[1] in used:
            return SKIP, used
        return ir, used | {ir[1]}
    if k in ("setNull", "setNew", "del"):
        return ir, used - {ir[1]}
    if k == "seq":
        out = []
        for x in ir[1]:
            y, used = simplify(x, used)
            out.append(y)
        return seq(out), used
    if k == "ite":
        t, ut = simplify(ir[2], set(used))
        e, ue = simplify(ir[3], set(used))
        return ite(ir[1], t, e), ut & ue
    return ir, used


NULLS = r"(?:nullptr|NULL|0)"
FACTORY = re.compile(r"^(?:\w+Factory::(?:generate|restart)|RestartManager::get_restart_reader)\s*\(")


_factory_cache = {}


def factory_may_return_null(call):
    """`XFactory::fn` / `RestartManager::get_restart_reader`: can the function return nullptr?
    Read from its source: a `return nullptr` that is not preceded (in its block) by cmac_error
    (which aborts) is reachable; a return of anything but `new ...` / nullptr counts as possibly
    null.  Anything that cannot be parsed counts as possibly null."""
    if call in _factory_cache:
        return _factory_cache[call]
    cls, fn = call.split("::")
    res = True
    try:
        path = os.path.join(vlib.REPO, "src", cls + ".hpp")
        text, _ = strip_comments_and_strings(open(path, encoding="utf-8").read())
        bodies = []
        for m in re.finditer(r"\*\s*%s\s*\(" % re.escape(fn), text):
            q = match_close(text, m.end() - 1)
            k = skip_ws(text, q + 1)
            if k < len(text) and text[k] == "{":
                bodies.append(text[k + 1:match_close(text, k)])
        if bodies:
            res = any(_may_null(parse_list(b))[0] for b in bodies)
    except (GenError, OSError):
        res = True
    _factory_cache[call] = res
    return res


def _may_null(nodes):
    """-> (a `return <possibly null>` is reachable, the list always exits)"""
    for nd in nodes:
        if nd.kind == "return":
            v = nd.text[len("return"):].strip()
            return (not re.match(r"new\b", v)), True
        if nd.kind == "simple" and re.match(r"cmac_error\s*\(", nd.text):
            return False, True
        if nd.kind == "block":
            r, ex = _may_null(nd.body)
            if r or ex:
                return r, ex
        if nd.kind == "if":
            r1, ex1 = _may_null(Unit.body_of(nd.then))
            r2, ex2 = _may_null(Unit.body_of(nd.els)) if nd.els is not None else (False, False)
            if r1 or r2:
                return True, False
            if ex1 and ex2:
                return False, True
        if nd.kind == "loop":
            r, _ = _may_null(Unit.body_of(nd.body))
            if r:
                return True, False
    return False, False


class Unit:
    """one owner: tracked scalar pointers, tracked pointer vectors, option table"""

    def __init__(self, name, strings):
        self.name = name
        self.strings = strings
        self.scalars = []      # tracked pointer fields (names, declaration order)
        self.vectors = []      # tracked std::vector< T * > fields
        self.types = {}
        self.opts = []         # option keys
        self.borrowed = []
        self.vec_sizes = {}    # vector field -> set of expressions known to equal its size
        self.unpopulated_loops = []
        self.never_null = []

    # ---- names
    @property
    def fields(self):
        return self.scalars + self.vectors

    def fidx(self, name):
        return self.fields.index(name)

    def opt(self, key):
        key = restore_strings(key, self.strings)
        if key not in self.opts:
            self.opts.append(key)
        return self.opts.index(key)

    # ---- expressions
    def uses_in(self, text, skip_name=None):
        res = []
        for x in self.fields:
            if x == skip_name:
                continue
            if x in self.vectors:
                pat = r"(?<![\w.>])%s\s*\[[^\]]*\]\s*->|\*\s*%s\s*\[" % (re.escape(x), re.escape(x))
            else:
                pat = r"(?<![\w.>])%s\s*->|(?<![\w)\]])\s*\*\s*%s\b(?!\s*[\[(])|\(\s*\*\s*%s\s*\)" % ((re.escape(x),) * 3)
            if re.search(pat, text):
                res.append(("use", self.fidx(x)))
        return res

    def check_no_escape(self, text, what):
        """a tracked pointer must not be assigned / address-taken in a way we do not model"""
        for x in self.fields:
            ex = re.escape(x)
            if re.search(r"(?<![\w.>])%s\s*(=(?!=)|\+\+|--|\+=|-=)" % ex, text) or \
               re.search(r"(\+\+|--)\s*%s\b" % ex, text) or \
               re.search(r"(?<![&\w])&\s*%s\b" % ex, text) or \
               re.search(r"\bdelete\b(\s*\[\s*\])?\s*%s\b" % ex, text) or \
               re.search(r"std::swap\s*\([^)]*\b%s\b" % ex, text) or \
               (x in self.vectors and re.search(r"(?<![\w.>])%s\s*\.\s*(push_back|emplace_back|clear|erase|pop_back|insert|assign|swap|resize)\b" % ex, text)):
                fail("%s: %s touches tracked pointer '%s' in a way the translator does not model: %r"
                     % (self.name, what, x, restore_strings(text, self.strings)[:160]))

    def rhs_ir(self, f, rhs, what):
        rhs = rhs.strip()
        uses = self.uses_in(rhs)
        if re.fullmatch(NULLS, rhs):
            return seq(uses + [("setNull", f)])
        if re.match(r"new\b", rhs):
            return seq(uses + [("setNew", f)])
        if FACTORY.match(rhs):
            call = norm(rhs.split("(")[0])
            if not factory_may_return_null(call):
                self.never_null.append(call)
                return seq(uses + [("setNew", f)])
            key = "%s:=%s" % (self.fields[f], call)
            return seq(uses + [ite(("opt", self.opt(key)), ("setNew", f), ("setNull", f))])
        fail("%s: %s assigns tracked pointer '%s' from an expression the translator does not model: %r"
             % (self.name, what, self.fields[f], restore_strings(rhs, self.strings)[:160]))

    # ---- conditions
    def cond_ite(self, cond, t, e):
        cond = cond.strip()
        parts = split_top(cond, "||")
        if len(parts) > 1:
            res = e
            for p in reversed(parts):
                res = self.cond_ite(p, t, res)
            return res
        parts = split_top(cond, "&&")
        if len(parts) > 1:
            res = t
            for p in reversed(parts):
                res = self.cond_ite(p, res, e)
            return res
        if cond.startswith("!") and not cond.startswith("!="):
            return self.cond_ite(cond[1:], e, t)
        if cond.startswith("(") and match_close(cond, 0) == len(cond) - 1:
            return self.cond_ite(cond[1:-1], t, e)
        for x in self.scalars:
            ex = re.escape(x)
            if re.fullmatch(r"%s|%s\s*!=\s*%s|%s\s*!=\s*%s" % (ex, ex, NULLS, NULLS, ex), cond):
                return ("ite", ("nonNull", self.fidx(x)), t, e)
            if re.fullmatch(r"%s\s*==\s*%s|%s\s*==\s*%s" % (ex, NULLS, NULLS, ex), cond):
                return ("ite", ("isNull", self.fidx(x)), t, e)
        self.check_no_escape(cond, "condition")
        uses = self.uses_in(cond)
        if t == SKIP and e == SKIP:
            return seq(uses)
        return seq(uses + [ite(("opt", self.opt(norm(cond))), t, e)])

    # ---- statements
    def simple_ir(self, s, loopvar=None, loopbound=None):
        if not s:
            return SKIP
        what = "statement"
        # delete
        m = re.fullmatch(r"delete\s+(\w+)\s*(\[\s*(\w+)\s*\])?", s)
        if m and m.group(1) in self.fields:
            x = m.group(1)
            if x in self.vectors:
                if not m.group(2) or m.group(3) != loopvar:
                    fail("%s: delete of vector '%s' outside a loop over its elements: %r" % (self.name, x, s))
                self.check_bound(x, loopbound)
            elif m.group(2):
                fail("%s: indexed delete of scalar pointer '%s'" % (self.name, x))
            return ("del", self.fidx(x))
        if re.match(r"delete\b", s):
            self.check_no_escape(re.sub(r"^delete\b(\s*\[\s*\])?", "", s), what)
            tgt = re.sub(r"^delete\b(\s*\[\s*\])?", "", s)
            return seq(self.uses_in(tgt))
        # declaration / assignment of a tracked scalar
        for x in self.scalars:
            ex = re.escape(x)
            m = re.fullmatch(r"(?:(?:const\s+)?[\w:]+(?:\s*<.*>)?\s*\*\s*(?:const\s+)?)?%s\s*(?:=(?!=)\s*(.*))?" % ex, s, flags=re.S)
            if m:
                if m.group(1) is None:
                    if re.fullmatch(ex, s):
                        return SKIP
                    return SKIP   # declaration without initialiser: stays uninitialised
                self.check_no_escape(m.group(1), what)
                return self.rhs_ir(self.fidx(x), m.group(1), what)
        # vector declarations and element assignments
        for x in self.vectors:
            ex = re.escape(x)
            m = re.fullmatch(r"std::vector\s*<[^;]*\*\s*>\s*%s\s*(?:\(\s*([^,()]*)\s*(?:,\s*%s\s*)?\))?" % (ex, NULLS), s)
            if m:
                if m.group(1):
                    self.vec_sizes.setdefault(x, set()).add(norm(m.group(1)))
                return ("setNull", self.fidx(x))
            m = re.fullmatch(r"%s\s*\.\s*resize\s*\(\s*([^,()]*)\s*(?:,\s*%s\s*)?\)" % (ex, NULLS), s)
            if m:
                self.vec_sizes.setdefault(x, set()).add(norm(m.group(1)))
                return ("setNull", self.fidx(x))
            m = re.fullmatch(r"%s\s*\[\s*(\w+)\s*\]\s*=(?!=)\s*(.*)" % ex, s, flags=re.S)
            if m:
                if m.group(1) != loopvar:
                    fail("%s: element of vector '%s' assigned outside a loop over its elements: %r" % (self.name, x, s))
                self.check_bound(x, loopbound)
                self.check_no_escape(m.group(2), what)
                return self.rhs_ir(self.fidx(x), m.group(2), what)
        self.check_no_escape(s, what)
        return seq(self.uses_in(s))

    def check_bound(self, x, bound):
        ok = {norm("%s.size()" % x)} | self.vec_sizes.get(x, set())
        if bound is None or norm(bound) not in ok:
            fail("%s: loop over the elements of vector '%s' has bound %r, expected one of %s (uniform-vector abstraction not applicable)"
                 % (self.name, x, bound, sorted(ok)))

    def stmt_ir(self, node, loopvar=None, loopbound=None):
        k = node.kind
        if k == "block":
            return self.list_ir(node.body, loopvar, loopbound)
        if k == "simple":
            return self.simple_ir(node.text, loopvar, loopbound)
        if k == "if":
            t = self.stmt_ir(node.then, loopvar, loopbound)
            e = self.stmt_ir(node.els, loopvar, loopbound) if node.els is not None else SKIP
            return self.cond_ite(node.cond, t, e)
        if k == "loop":
            lv, lb = None, None
            if node.word == "for":
                hp = split_top(node.head, ";")
                if len(hp) == 3:
                    mi = re.fullmatch(r"\s*(?:[\w:]+\s+)?(\w+)\s*=\s*0\s*", hp[0])
                    mc = re.fullmatch(r"\s*(\w+)\s*<\s*(.+?)\s*", hp[1])
                    ms = re.fullmatch(r"\s*(?:\+\+\s*(\w+)|(\w+)\s*\+\+)\s*", hp[2])
                    if mi and mc and ms and mi.group(1) == mc.group(1) == (ms.group(1) or ms.group(2)):
                        lv, lb = mi.group(1), mc.group(2)
            self.check_no_escape(node.head, "loop header")
            for x in self.vectors:
                if lb is not None and norm(lb) == norm("%s.size()" % x) and x not in self.vec_sizes:
                    # the vector was default-constructed and never given elements by the code
                    # seen so far (e.g. TrackerManager::_multi_trackers, filled by add_trackers):
                    # the loop over its elements does not run
                    self.unpopulated_loops.append(x)
                    return SKIP
            body = self.stmt_ir(node.body, lv, lb)
            head_uses = seq(self.uses_in(node.head))
            if body == SKIP:
                return head_uses
            if mutates(body):
                # only the uniform whole-vector loop is modelled: the body acts on the
                # representative element of vector fields and must not change a scalar pointer
                bad = [self.fields[f] for f in self.mutated_fields(body) if self.fields[f] in self.scalars]
                if bad or lv is None:
                    fail("%s: loop %r changes tracked pointer(s) %s: loops are not modelled"
                         % (self.name, restore_strings(node.head, self.strings)[:80], bad or "(not a counting loop)"))
                return seq([head_uses, body])
            # a loop that only reads: run zero times or once (the state does not change in it)
            return seq([head_uses, ite(("opt", self.opt("loop:" + norm(node.head))), body, SKIP)])
        if k == "return":
            fail("%s: unsupported early return: %r" % (self.name, node.text))
        fail("unknown node " + k)

    def mutated_fields(self, ir):
        k = ir[0]
        if k in ("setNull", "setNew", "del"):
            return {ir[1]}
        if k == "seq":
            s = set()
            for x in ir[1]:
                s |= self.mutated_fields(x)
            return s
        if k == "ite":
            return self.mutated_fields(ir[2]) | self.mutated_fields(ir[3])
        return set()

    def list_ir(self, nodes, loopvar=None, loopbound=None, top=False):
        out = []
        for i, nd in enumerate(nodes):
            if nd.kind == "return":
                if not top:
                    fail("%s: unsupported early return: %r" % (self.name, nd.text))
                self.check_no_escape(nd.text, "return")
                out += self.uses_in(nd.text)
                rest = nodes[i + 1:]
                if rest:
                    fail("%s: statements after return" % self.name)
                return seq(out)
            if top and nd.kind == "if" and nd.els is None and self.ends_in_return(nd.then):
                # S1; if (c) { A; return; } S2   ==   S1; if (c) { A } else { S2 }
                t = self.list_ir(self.body_of(nd.then), top=True)
                e = self.list_ir(nodes[i + 1:], top=True)
                out.append(self.cond_ite(nd.cond, t, e))
                return seq(out)
            out.append(self.stmt_ir(nd, loopvar, loopbound))
        return seq(out)

    @staticmethod
    def body_of(nd):
        return nd.body if nd.kind == "block" else [nd]

    def ends_in_return(self, nd):
        b = self.body_of(nd)
        return bool(b) and b[-1].kind == "return"


# --------------------------------------------------------------------------- class extraction

def find_class_body(text, cls):
    m = re.search(r"\bclass\s+%s\b[^;{]*\{" % re.escape(cls), text)
    if not m:
        fail("class %s not found" % cls)
    j = match_close(text, m.end() - 1)
    return text[m.end():j]


def class_members(body):
    """-> (data member declaration texts, functions [(header_before_paren, params, tail_init_list, body_text or None)])"""
    datas, funcs = [], []
    i = 0
    while True:
        i = skip_ws(body, i)
        if i >= len(body):
            break
        m = re.compile(r"(public|private|protected)\s*:").match(body, i)
        if m:
            i = m.end()
            continue
        j = i
        kind = None
        while j < len(body):
            c = body[j]
            if c == ";":
                kind = "data"
                break
            if c == "{":
                kind = "brace"
                break
            if c == "(":
                kind = "func"
                break
            if c == "=" and body[j:j + 2] != "==":
                kind = "dataeq"
                break
            j += 1
        if kind is None:
            break
        if kind == "data":
            datas.append(body[i:j].strip())
            i = j + 1
        elif kind == "dataeq":
            k = j
            while body[k] != ";":
                k = match_close(body, k) + 1 if body[k] in OPEN else k + 1
            datas.append(body[i:k].strip())
            i = k + 1
        elif kind == "brace":
            k = match_close(body, j)
            i = k + 1
            k2 = skip_ws(body, i)
            if k2 < len(body) and body[k2] == ";":
                i = k2 + 1
        else:
            head = body[i:j].strip()
            q = match_close(body, j)
            params = body[j + 1:q]
            k = skip_ws(body, q + 1)
            mm = re.compile(r"(?:const|override|noexcept|final|\s)+").match(body, k)
            if mm:
                k = mm.end()
            inits = None
            if body[k] == ":":
                inits, k = parse_init_list(body, k + 1)
            if body[k] == ";":
                funcs.append((head, params, inits, None))
                i = k + 1
            elif body[k] == "=":   # = default / = delete / = 0
                k2 = body.index(";", k)
                funcs.append((head, params, inits, None))
                i = k2 + 1
            elif body[k] == "{":
                e = match_close(body, k)
                funcs.append((head, params, inits, body[k + 1:e]))
                i = e + 1
            else:
                fail("cannot parse member function %r" % head[:80])
    return datas, funcs


def parse_init_list(text, k):
    """text[k:] just after ':' -> ([(name, expr)], index of '{')"""
    res = []
    while True:
        k = skip_ws(text, k)
        m = re.compile(r"[\w:]+(?:\s*<[^(){}]*>)?").match(text, k)
        if not m:
            fail("cannot parse initialiser list near %r" % text[k:k + 60])
        name = m.group(0).strip()
        k = skip_ws(text, m.end())
        if text[k] not in "({":
            fail("cannot parse initialiser of %s" % name)
        q = match_close(text, k)
        res.append((name, text[k + 1:q].strip()))
        k = skip_ws(text, q + 1)
        if text[k] == ",":
            k += 1
            continue
        if text[k] == "{":
            return res, k
        fail("cannot parse initialiser list after %s" % name)


def param_names(params):
    names = []
    for p in split_top(params, ",", angle=True):
        p = p.split("=")[0].strip()
        if not p:
            continue
        m = re.search(r"(\w+)\s*$", p)
        names.append(m.group(1))
    return names


def find_outofline(text, qual):
    """definition `qual(params) [: inits] { body }` in a .cpp -> (params, inits, body) or None"""
    m = re.search(r"(?<![\w:])%s\s*\(" % re.escape(qual), text)
    if not m:
        return None
    q = match_close(text, m.end() - 1)
    params = text[m.end():q]
    k = skip_ws(text, q + 1)
    inits = None
    if text[k] == ":":
        inits, k = parse_init_list(text, k + 1)
    if text[k] != "{":
        fail("definition of %s has no body" % qual)
    e = match_close(text, k)
    return params, inits, text[k + 1:e]


PTR_MEMBER = re.compile(r"^(?:const\s+)?([\w:]+(?:\s*<.*>)?)\s*\*\s*(?:const\s+)?(\w+)$", re.S)
VEC_MEMBER = re.compile(r"^std::vector\s*<\s*(?:const\s+)?([\w:]+(?:\s*<.*>)?)\s*\*\s*>\s*(\w+)$", re.S)


def class_units(cls, hpp, cpp=None):
    """descriptions of class `cls` declared in header hpp (definitions inline or in cpp): one per
    non-delegating constructor -> [(suffix, Unit)]"""
    htext, hstr = strip_comments_and_strings(open(os.path.join(vlib.REPO, "src", hpp), encoding="utf-8").read())
    strings = list(hstr)
    ctext = None
    if cpp:
        raw = open(os.path.join(vlib.REPO, "src", cpp), encoding="utf-8").read()
        ctext, cstr = strip_comments_and_strings(raw)
        off = len(strings)
        ctext = re.sub(r"@S(\d+)@", lambda m: "@S%d@" % (int(m.group(1)) + off), ctext)
        strings += cstr
    body = find_class_body(htext, cls)
    datas, funcs = class_members(body)
    ptrs, vecs, decl_order, types = [], [], [], {}
    for d in datas:
        d = re.sub(r"^(?:static|mutable)\s+", "", d)
        mn = re.search(r"(\w+)\s*(?:\[[^\]]*\]\s*)?(?:=.*)?$", d, flags=re.S)
        if mn and not re.match(r"(?:typedef|using|friend|enum|class|struct)\b", d):
            decl_order.append(mn.group(1))
        m = PTR_MEMBER.match(d)
        if m:
            ptrs.append(m.group(2))
            types[m.group(2)] = norm(m.group(1))
            continue
        m = VEC_MEMBER.match(d)
        if m:
            vecs.append(m.group(2))
            types[m.group(2)] = norm(m.group(1))
            continue
        if "*" in d and "(" not in d:
            fail("%s: pointer-like data member not understood: %r" % (cls, d[:100]))
    # constructors and destructor
    ctors, dtor = [], None
    for (head, params, inits, fbody) in funcs:
        h = re.sub(r"\b(inline|explicit|virtual)\b", "", head).strip()
        if h == cls:
            ctors.append((params, inits, fbody))
        elif norm(h) == "~" + cls:
            dtor = fbody
    if ctext is not None:
        fixed = []
        for (params, inits, fbody) in ctors:
            if fbody is None:
                d = find_outofline(ctext, "%s::%s" % (cls, cls))
                if d is None:
                    fail("%s: constructor definition not found" % cls)
                fixed.append(d)
            else:
                fixed.append((params, inits, fbody))
        ctors = fixed
        if dtor is None:
            d = find_outofline(ctext, "%s::~%s" % (cls, cls))
            if d is not None:
                dtor = d[2]
    if dtor is None:
        dtor = ""   # implicit (or only declared) destructor: deletes nothing
    primary, delegating = [], []
    for c in ctors:
        if c[2] is None:
            fail("%s: constructor without definition" % cls)
        if c[1] and len(c[1]) == 1 and c[1][0][0] == cls:
            delegating.append(c)
        else:
            primary.append(c)
    if not primary:
        fail("%s: no non-delegating constructor found" % cls)
    # owned or borrowed?  (decided over all constructors together)
    allc = "\n".join(c[2] for c in primary) + "\n" + dtor
    scalars, borrowed, vectors = [], [], []
    for x in ptrs:
        ex = re.escape(x)
        deleted = re.search(r"\bdelete\b(\s*\[\s*\])?\s*%s\b" % ex, allc)
        assigned = re.search(r"(?<![\w.>])%s\s*=(?!=)" % ex, allc)
        from_param = all((x in dict(c[1] or [])) and dict(c[1] or [])[x].strip() in param_names(c[0]) for c in primary)
        if not deleted and not assigned and from_param:
            borrowed.append(x)
        else:
            scalars.append(x)
    for x in vecs:
        ex = re.escape(x)
        if re.search(r"\bdelete\b\s*%s\b" % ex, allc) or re.search(r"(?<![\w.>])%s\s*\[[^\]]*\]\s*=(?!=)\s*(new\b|\w+Factory::)" % ex, allc) \
           or re.search(r"(?<![\w.>])%s\s*\.\s*push_back" % ex, body + (ctext or "")):
            vectors.append(x)
    res = []
    for (params, inits, cbody) in primary:
        u = Unit(cls, strings)
        u.types = dict(types)
        u.scalars, u.vectors, u.borrowed = list(scalars), list(vectors), list(borrowed)
        inits = inits or []
        pnames = param_names(params)
        # constructor: implicit default construction of vectors, then the member initialisers:
        # C++ runs them in DECLARATION order, whatever the order in the list
        ctor_ir = [("setNull", u.fidx(x)) for x in u.vectors]
        order = {name: i for i, name in enumerate(decl_order)}
        member_inits = dict(inits)
        for (name, expr) in sorted(inits, key=lambda it: order.get(it[0], -1)):
            if name in u.vectors:
                fail("%s: vector field %s has an initialiser" % (cls, name))
            if name in u.fields:
                ctor_ir.append(u.rhs_ir(u.fidx(name), expr, "initialiser list"))
            else:
                u.check_no_escape(expr, "initialiser of " + name)
                ctor_ir += u.uses_in(expr)
        ctor_ir.append(u.list_ir(parse_list(cbody), top=True))
        dtor_ir = u.list_ir(parse_list(dtor), top=True)
        u.ctor, used = simplify(seq(ctor_ir))
        u.dtor, _ = simplify(dtor_ir, used)
        # option -> parameter file key, through a delegating constructor with as many arguments
        u.optkeys = {}
        for dc in delegating:
            dargs = split_top(dc[1][0][1], ",")
            if norm(dc[2]):
                fail("%s: delegating constructor has a body" % cls)
            if len(dargs) == len(pnames):
                for o in u.opts:
                    src = member_inits.get(o, o).strip()
                    if src in pnames:
                        arg = dargs[pnames.index(src)]
                        mk = re.search(r'get_value\s*<\s*bool\s*>\s*\(\s*"(@S\d+@)"\s*,\s*(true|false)\s*\)', arg)
                        if mk:
                            u.optkeys[o] = (restore_strings(mk.group(1), strings), mk.group(2) == "true")
        u.files = [hpp] + ([cpp] if cpp else [])
        u.ctor_params = norm(params)
        res.append(u)
    if len(res) == 1:
        return [("", res[0])]
    out, k = [], 0
    for u in res:
        if re.fullmatch(r"RestartReader&\w+", u.ctor_params):
            out.append(("Restart", u))
        else:
            out.append(("" if k == 0 else "Alt%d" % k, u))
            k += 1
    if len(set(sfx for sfx, _ in out)) != len(out):
        fail("%s: constructors cannot be told apart" % cls)
    return out


def function_unit(name, cpp, qual):
    """pointer locals declared at the top level of one function"""
    raw = open(os.path.join(vlib.REPO, "src", cpp), encoding="utf-8").read()
    text, strings = strip_comments_and_strings(raw)
    d = find_outofline(text, qual)
    if d is None:
        fail("%s not found in %s" % (qual, cpp))
    params, _, body = d
    u = Unit(name, strings)
    nodes = parse_list(body)
    decl = re.compile(r"^(?:const\s+)?([\w:]+(?:\s*<.*>)?)\s*\*\s*(?:const\s+)?(\w+)\s*(?:=(?!=)\s*(.*))?$", re.S)
    vdecl = re.compile(r"^std::vector\s*<\s*(?:const\s+)?([\w:]+(?:\s*<.*>)?)\s*\*\s*>\s*(\w+)\s*(?:\(.*\))?$", re.S)
    cands, vcands = [], []
    for nd in nodes:
        if nd.kind != "simple":
            continue
        m = decl.match(nd.text)
        if m and not re.match(r"(return|delete)\b", nd.text):
            cands.append((m.group(2), m.group(3)))
            u.types[m.group(2)] = norm(m.group(1))
            continue
        m = vdecl.match(nd.text)
        if m:
            vcands.append(m.group(2))
            u.types[m.group(2)] = norm(m.group(1))
    for (x, init) in cands:
        ex = re.escape(x)
        owned = re.search(r"\bdelete\b\s*%s\b" % ex, body) or \
            re.search(r"(?<![\w.>])%s\s*=(?!=)\s*(new\b|\w+Factory::|RestartManager::get_restart_reader)" % ex, body)
        if owned:
            u.scalars.append(x)
        else:
            u.borrowed.append(x)
    for x in vcands:
        ex = re.escape(x)
        if re.search(r"\bdelete\b\s*%s\b" % ex, body) or re.search(r"(?<![\w.>])%s\s*\[[^\]]*\]\s*=(?!=)\s*(new\b|\w+Factory::)" % ex, body):
            u.vectors.append(x)
    # split: destructor part = maximal suffix of top-level statements (before the final return)
    # that only deletes
    end = len(nodes)
    if nodes and nodes[-1].kind == "return":
        end -= 1

    def only_deletes(nd):
        if nd.kind == "simple":
            return bool(re.match(r"delete\b", nd.text)) or nd.text == ""
        if nd.kind == "block":
            return all(only_deletes(x) for x in nd.body)
        if nd.kind == "if":
            return only_deletes(nd.then) and (nd.els is None or only_deletes(nd.els))
        if nd.kind == "loop":
            return only_deletes(nd.body)
        return False
    k = end
    while k > 0 and only_deletes(nodes[k - 1]):
        k -= 1
    u.split_note = "destructor part = the %d trailing delete statements of %s" % (end - k, qual)
    # one program (early returns need the continuation); cut into ctor / dtor only when no early
    # return crosses the cut
    has_early = any(nd.kind == "if" and nd.els is None and u.ends_in_return(nd.then) for nd in nodes[:k])
    if has_early:
        # the continuation of an early return contains the tail: keep everything in `ctor`
        u.ctor, _ = simplify(u.list_ir(nodes, top=True))
        u.dtor = SKIP
        u.whole = True
    else:
        u.ctor, used = simplify(u.list_ir(nodes[:k], top=True))
        u.dtor, _ = simplify(u.list_ir(nodes[k:], top=True), used)
        u.whole = False
    u.optkeys = {}
    u.files = [cpp]
    return u


# --------------------------------------------------------------------------- output

def lean_ir(ir, ind):
    p = " " * ind
    k = ir[0]
    if k == "skip":
        return p + ".skip"
    if k in ("setNull", "setNew", "del", "use"):
        return p + "(.%s %d)" % (k, ir[1])
    if k == "seq":
        items = list(ir[1])
        out = []
        for i, x in enumerate(items[:-1]):
            out.append(p + "(.seq")
            out.append(lean_ir(x, ind + 1))
        out.append(lean_ir(items[-1], ind + 1))
        return "\n".join(out) + ")" * (len(items) - 1)
    if k == "ite":
        c = ir[1]
        return "%s(.ite (.%s %d)\n%s\n%s)" % (p, c[0], c[1], lean_ir(ir[2], ind + 2), lean_ir(ir[3], ind + 2))
    raise AssertionError(k)


def lean_str(s):
    return '"' + s.replace("\\", "\\\\").replace('"', '\\"') + '"'


def cpp_str(s):
    return '"' + s.replace("\\", "\\\\").replace('"', '\\"') + '"'


def count_nodes(ir):
    k = ir[0]
    if k == "seq":
        return sum(count_nodes(x) for x in ir[1])
    if k == "ite":
        return 1 + count_nodes(ir[2]) + count_nodes(ir[3])
    return 1


UNITS = [
    ("liveOutputManager", lambda: class_units("LiveOutputManager", "LiveOutputManager.hpp")),
    ("trackerManager", lambda: class_units("TrackerManager", "TrackerManager.hpp")),
    ("taskBasedIonizationSimulation", lambda: class_units("TaskBasedIonizationSimulation", "TaskBasedIonizationSimulation.hpp",
                                                          "TaskBasedIonizationSimulation.cpp")),
    ("rhdSimulation", lambda: [("", function_unit("TaskBasedRadiationHydrodynamicsSimulation::do_simulation",
                                                  "TaskBasedRadiationHydrodynamicsSimulation.cpp",
                                                  "TaskBasedRadiationHydrodynamicsSimulation::do_simulation"))]),
    ("uniformRandomPSD", lambda: class_units("UniformRandomPhotonSourceDistribution", "UniformRandomPhotonSourceDistribution.hpp")),
    ("discPatchPSD", lambda: class_units("DiscPatchPhotonSourceDistribution", "DiscPatchPhotonSourceDistribution.hpp")),
    ("caproniPSD", lambda: class_units("CaproniPhotonSourceDistribution", "CaproniPhotonSourceDistribution.hpp")),
]
# every description that must exist (a constructor that disappears is reported, not ignored)
EXPECTED = ["liveOutputManager", "trackerManager", "taskBasedIonizationSimulation", "rhdSimulation",
            "uniformRandomPSD", "uniformRandomPSDRestart", "discPatchPSD", "discPatchPSDRestart",
            "caproniPSD", "caproniPSDRestart"]


def generate():
    """-> dict(units={leanname: info}, changed=bool); raises GenError when it cannot parse"""
    units = {}
    L = ["/- GENERATED by tools/gen_c12_lifecycle.py from /repo's src/LiveOutputManager.hpp,",
         "   src/TrackerManager.hpp, src/TaskBasedIonizationSimulation.{hpp,cpp},",
         "   src/TaskBasedRadiationHydrodynamicsSimulation.cpp and the three random photon source",
         "   distributions (one description per non-delegating constructor) — DO NOT EDIT (rewritten",
         "   on every run).",
         "   Pointer tests stay pointer tests; every other condition is a numbered option (names in",
         "   `opts`); a factory call is `new` or `nullptr` depending on an option named",
         "   \"<field>:=<factory>\". -/",
         "import CMacVerif.Model.Lifecycle",
         "namespace CMacVerif.Gen.Lifecycle",
         "open CMacVerif.Lifecycle",
         ""]
    H = ["// GENERATED by tools/gen_c12_lifecycle.py - do not edit",
         "#ifndef C12_GEN_HPP", "#define C12_GEN_HPP"]
    names = []
    for (lname, u) in [(base + sfx, u) for (base, mk) in UNITS for (sfx, u) in mk()]:
        names.append(lname)
        if not u.fields:
            fail("%s: no owned pointer field found" % u.name)
        bad = ir_fields(seq([u.ctor, u.dtor])) - set(range(len(u.fields)))
        if bad:
            fail("%s: internal error, field numbers %s" % (u.name, bad))
        units[lname] = dict(name=u.name, fields=list(u.fields), scalars=list(u.scalars), vectors=list(u.vectors),
                            opts=list(u.opts), borrowed=list(u.borrowed), optkeys=dict(u.optkeys),
                            nodes=count_nodes(u.ctor) + count_nodes(u.dtor), types=dict(u.types),
                            ctor=u.ctor, dtor=u.dtor, whole=getattr(u, "whole", False),
                            never_null=sorted(set(u.never_null)), unpopulated=sorted(set(u.unpopulated_loops)))
        L.append("/-- %s (%s); pointers that are only borrowed (never owned): %s;\n    factories that never return nullptr (read from their source): %s;\n    vectors without elements between constructor and destructor: %s -/" % (
            u.name, ", ".join("src/" + f for f in u.files), ", ".join(u.borrowed) or "none",
            ", ".join(sorted(set(u.never_null))) or "none", ", ".join(sorted(set(u.unpopulated_loops))) or "none"))
        L.append("def %s : ClassDesc where" % lname)
        L.append("  name := %s" % lean_str(u.name))
        L.append("  fields := [%s]" % ", ".join(lean_str(f) for f in u.fields))
        L.append("  opts := [%s]" % ", ".join(lean_str(o) for o in u.opts))
        L.append("  ctor :=")
        L.append(lean_ir(u.ctor, 4))
        L.append("  dtor :=")
        L.append(lean_ir(u.dtor, 4))
        L.append("")
        tag = lname.upper()
        H.append("#define C12_%s_FIELDS(S, V) %s" % (tag, " ".join(
            ["S(%d, %s)" % (i, f) for i, f in enumerate(u.scalars)] +
            ["V(%d, %s)" % (i + len(u.scalars), f) for i, f in enumerate(u.vectors)])))
        H.append("#define C12_%s_NFIELDS %d" % (tag, len(u.fields)))
        H.append("static const char *const c12_%s_optkeys[] = {%s};" % (lname, ", ".join(
            cpp_str(u.optkeys[o][0]) if o in u.optkeys else "nullptr" for o in u.opts) or "nullptr"))
        H.append("static const int c12_%s_nopts = %d;" % (lname, len(u.opts)))
    if names != EXPECTED:
        fail("descriptions found %s, expected %s (a constructor appeared or disappeared)" % (names, EXPECTED))
    L.append("def all : List ClassDesc := [%s]" % ", ".join(names))
    L.append("")
    L.append("end CMacVerif.Gen.Lifecycle")
    H.append("#endif")
    text = "\n".join(L) + "\n"
    old = open(OUT, encoding="utf-8").read() if os.path.exists(OUT) else None
    changed = old != text
    if changed:
        with open(OUT, "w", encoding="utf-8") as f:
            f.write(text)
    os.makedirs(OUT_HPP_DIR, exist_ok=True)
    htext = "\n".join(H) + "\n"
    oldh = open(OUT_HPP, encoding="utf-8").read() if os.path.exists(OUT_HPP) else None
    if oldh != htext:
        with open(OUT_HPP, "w", encoding="utf-8") as f:
            f.write(htext)
    return dict(units=units, changed=changed, hpp_dir=OUT_HPP_DIR)


if __name__ == "__main__":
    info = generate()
    for k, v in info["units"].items():
        print(k, "fields=%d opts=%d nodes=%d borrowed=%s" % (len(v["fields"]), len(v["opts"]), v["nodes"], v["borrowed"]))
        print("   fields:", v["fields"])
        print("   optkeys:", v["optkeys"])
    print("changed:", info["changed"])
