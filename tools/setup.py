#!/usr/bin/env python3
"""setup: configure the scratch CMake tree and pre-build the hooked binary (offline)."""
import sys, os
sys.path.insert(0, os.path.dirname(os.path.abspath(__file__)))
import vlib
vlib.ensure_configured()
try:
    vlib.full_binary()
except Exception as e:
    print("warning: full binary not pre-built:", e)
print("setup done")
