#!/usr/bin/env python3
"""setup (offline): build the Lean library, the drivers, configure the scratch CMake tree and
pre-build the hooked binary.  Failures here are reported but do not stop: every check rebuilds
what it needs itself."""
import sys, os, re
sys.path.insert(0, os.path.dirname(os.path.abspath(__file__)))
import vlib
exes = re.findall(r'name = "(drv_c\d+)"', open(os.path.join(vlib.LEAN, "lakefile.toml")).read())
ok, out = vlib.lake_build(["CMacVerif", "Driver"] + exes)
print("lake build:", "ok" if ok else "FAILED\n" + out[-3000:])
vlib.ensure_configured()
try:
    vlib.full_binary()
except Exception as e:
    print("warning: full binary not pre-built:", e)
# sanitizer build of the whole binary used by C12 (about 4 min the first time)
import subprocess
try:
    r = subprocess.run([sys.executable, os.path.join(vlib.VERIF, "tools", "props", "c12.py"), "--prebuild"],
                       cwd=vlib.VERIF, stdout=subprocess.PIPE, stderr=subprocess.STDOUT, text=True, timeout=3600)
    print("c12 prebuild:", "ok" if r.returncode == 0 else "FAILED\n" + r.stdout[-2000:])
except Exception as e:
    print("warning: c12 prebuild failed:", e)
print("setup done")
