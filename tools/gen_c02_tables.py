#!/usr/bin/env python3
"""C02 translator (DESIGN §2.2, extraction by exhaustive evaluation).

Compiles harness/gen_c02_tables.cpp against /repo's CURRENT TravelDirections.hpp /
DensitySubGrid.hpp, runs it and writes lean/CMacVerif/Gen/TravelDirectionsC02.lean.
Called by tools/props/c02.py on every run before `lake build`.  Fails closed: if the program
does not compile or cannot classify what it finds, an exception is raised and the check
reports a broken obligation."""
import os
import re
import subprocess
import sys

sys.path.insert(0, os.path.dirname(os.path.abspath(__file__)))
import vlib

OUT = os.path.join(vlib.LEAN, "CMacVerif", "Gen", "TravelDirectionsC02.lean")


def system_includes():
    """-I flags of the third-party headers (MPI, HDF5) the configured tree compiles with; taken
    from the scratch CMake tree's build.ninja so that the harness sees the same headers"""
    vlib.ensure_configured()
    flags = []
    try:
        text = open(os.path.join(vlib.FULL, "build.ninja"), encoding="utf-8", errors="replace").read()
    except OSError:
        return flags
    for m in re.finditer(r"(?:-I|-isystem )(/\S+)", text):
        d = m.group(1)
        if d.startswith(vlib.REPO) or d.startswith(vlib.FULL) or ("-I" + d) in flags:
            continue
        flags.append("-I" + d)
    return flags


def generate():
    cfg = vlib.ensure_configured()
    os.makedirs(vlib.BIN, exist_ok=True)
    exe = os.path.join(vlib.BIN, "gen_c02_tables")
    cmd = ["g++", "-std=c++11", "-O1", "-DOMPI_SKIP_MPICXX", "-Wno-cpp", "-fopenmp", "-I" + os.path.join(vlib.REPO, "src"),
           "-I" + cfg] + system_includes() + [os.path.join(vlib.VERIF, "harness", "gen_c02_tables.cpp"), "-o", exe]
    rc, out = vlib.sh(cmd)
    if rc != 0:
        raise vlib.HarnessBuildError("gen_c02_tables", out)
    p = subprocess.run([exe], stdout=subprocess.PIPE, stderr=subprocess.PIPE, text=True, timeout=120)
    if p.returncode != 0 or "end CMacVerif.Gen.TDC02" not in p.stdout:
        raise RuntimeError("C02 table extraction failed (rc %d): %s" % (p.returncode, p.stderr[-1500:]))
    text = p.stdout
    old = None
    if os.path.exists(OUT):
        old = open(OUT, encoding="utf-8").read()
    if old != text:
        with vlib.Lock("lake"):
            tmp = OUT + ".tmp%d" % os.getpid()
            with open(tmp, "w", encoding="utf-8") as f:
                f.write(text)
            os.replace(tmp, OUT)
    return OUT, (old is not None and old != text)


if __name__ == "__main__":
    path, changed = generate()
    print(path, "changed" if changed else "unchanged")
