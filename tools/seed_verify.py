#!/usr/bin/env python3
"""seed_verify.py <PID> <variant-dir> <name>
Confirms a seeded change myself (fresh scratch worktree of /repo): the patch applies, the code
compiles and the 55 pinned tests pass, the demonstration FAILS with the change and PASSES without
it.  Then stores it as /verif/seeded/<name>/ (patch.diff, demo files, meta.json)."""
import json, os, shutil, subprocess, sys
pid, vdir, name = sys.argv[1], sys.argv[2].rstrip("/"), sys.argv[3]
wt = "/tmp/sv_%s" % name
def sh(cmd, **kw):
    p = subprocess.run(cmd, shell=True, stdout=subprocess.PIPE, stderr=subprocess.STDOUT, text=True, **kw)
    return p.returncode, p.stdout
sh("git -C /repo worktree remove --force %s; rm -rf %s %s_b" % (wt, wt, wt))
rc, out = sh("git -C /repo worktree add --detach %s HEAD" % wt)
assert rc == 0, out
res = {"property": pid, "name": name}
try:
    # demo on the unchanged tree
    rc, out = sh("/tmp/seedtools/bt.sh %s %s" % (wt, os.environ.get("SEED_BT_TARGETS", "")), timeout=5400)
    res["pinned_unchanged"] = out.strip().split("\n")[-1]
    rc0, out0 = sh("bash %s/run_demo.sh %s_b/src_mirror %s_b/build/src" % (vdir, wt, wt), timeout=3600)
    res["demo_unchanged_rc"] = rc0
    rc, out = sh("git -C %s apply %s/patch.diff" % (wt, vdir))
    res["patch_applies"] = rc == 0
    assert rc == 0, out
    rc, out = sh("/tmp/seedtools/bt.sh %s %s" % (wt, os.environ.get("SEED_BT_TARGETS", "")), timeout=5400)
    res["pinned_changed"] = out.strip().split("\n")[-1]
    rc1, out1 = sh("bash %s/run_demo.sh %s_b/src_mirror %s_b/build/src" % (vdir, wt, wt), timeout=3600)
    res["demo_changed_rc"] = rc1
    res["demo_changed_tail"] = out1[-600:]
    ok = rc0 == 0 and rc1 != 0 and "55/55" in res["pinned_changed"]
    res["confirmed"] = ok
finally:
    sh("git -C /repo worktree remove --force %s; rm -rf %s_b" % (wt, wt))
print(json.dumps(res, indent=1))
if res.get("confirmed"):
    dst = os.path.join("/verif/seeded", name)
    if os.path.exists(dst):
        shutil.rmtree(dst)
    shutil.copytree(vdir, dst)
    for f in os.listdir(dst):
        if f.endswith(".log") or os.path.getsize(os.path.join(dst, f)) > 2000000:
            os.unlink(os.path.join(dst, f))
    meta = {}
    try:
        meta = json.load(open(os.path.join(dst, "meta.json")))
    except Exception:
        pass
    meta["property"] = pid
    meta["confirmed_by_me"] = {k: res[k] for k in ("pinned_unchanged", "pinned_changed", "demo_unchanged_rc", "demo_changed_rc")}
    meta["what_i_ran"] = ["git worktree add (fresh)", "/tmp/seedtools/bt.sh <wt>  (build + 55 pinned tests) before and after `git apply patch.diff`",
                          "run_demo.sh <mirror> <generated headers> before (exit 0) and after (exit != 0)"]
    json.dump(meta, open(os.path.join(dst, "meta.json"), "w"), indent=1)
sys.exit(0 if res.get("confirmed") else 1)
