#!/usr/bin/env python3
"""Single entry point:  python3 tools/check.py Cxx --tier quick|thorough [--replay path]
Exit 0: property held on everything explored.  Exit 1: a line
`VIOLATION property=<id> replay=<path>[ no-failing-input-found]` was printed."""
import argparse
import importlib
import os
import sys
import traceback

sys.path.insert(0, os.path.dirname(os.path.abspath(__file__)))
import vlib


def main():
    ap = argparse.ArgumentParser()
    ap.add_argument("pid")
    ap.add_argument("--tier", default=os.environ.get("VERIF_TIER", "quick"), choices=["quick", "thorough"])
    ap.add_argument("--replay", default=None)
    a = ap.parse_args()
    seed = int(os.environ.get("VERIF_SEED", "1") or 1)
    ctx = vlib.Ctx(a.pid, a.tier, seed, a.replay)
    mod = importlib.import_module("props." + a.pid.lower())
    try:
        if a.replay:
            return mod.replay(ctx, a.replay)
        mod.run(ctx)
    except vlib.HarnessBuildError as e:
        # the harness includes the real headers: if it no longer compiles, the tie to the code
        # is broken (a renamed member etc.) -> property no longer shown to hold
        ctx.broken_obligation("harness %s does not compile against /repo's current tree" % e.name, e.out[-3000:])
    except Exception as e:  # machinery failure: report as broken tie, never silently pass
        ctx.broken_obligation("check machinery failed: %r" % (e,), traceback.format_exc())
    return ctx.finish()


if __name__ == "__main__":
    sys.exit(main())
