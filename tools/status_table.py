#!/usr/bin/env python3
"""prints a markdown status table from MANIFEST.json and evidence/*.json"""
import json, os, re
m = json.load(open("/verif/MANIFEST.json"))
print("| id | level | theorems (audited) | partial theorems | correspondence lines (last quick run) | quick wall |")
print("|---|---|---|---|---|---|")
for c in m["checks"]:
    pid = c["property_id"]
    try:
        e = json.load(open("/verif/evidence/%s.json" % pid))
    except Exception:
        continue
    cov = e["coverage"]
    ax = cov.get("axioms", {})
    partial = sorted(t.split(".")[-1] for t in ax if t.endswith("_partial"))
    lines = sum(v.get("lines", 0) for v in cov.get("correspondence_streams", {}).values()) or cov.get("evaluations", 0)
    print("| %s | %s | %d/%d | %s | %s | %.0f s |" % (pid, c["level_claimed"]["category"], cov.get("discharged", 0), cov.get("obligations", 0),
          ", ".join(partial) or "—", lines, e.get("wall_s", 0)))
for n in m.get("not_applicable", []):
    print("| %s | not applicable | | | | |" % n["property_id"])
