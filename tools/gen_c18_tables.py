#!/usr/bin/env python3
"""Translator for C18 (DESIGN §2.2): writes lean/CMacVerif/Gen/Verner.lean from

  * /repo/data/verner_A.dat, verner_B.dat, verner_C.dat, verner_rec_data.txt  (textual; every
    decimal literal is copied digit for digit into a Lean scientific literal, i.e. it denotes the
    exact rational of the file at Rat/Real and the correctly rounded double at Float),
  * the ion -> (Z, N, shell) switch of VernerCrossSections::get_cross_section (regex over the
    preprocessed source: `g++ -E -P`, so the HAS_* guards of the configuration are honoured),
  * the values of the IonName enumerators and of the two physical constants the constructor
    uses (exhaustive evaluation by a tiny C++ program compiled against the current headers).

Fails closed: anything it cannot parse raises TranslateError (the check reports a broken tie).
The render-back self-test is in tools/props/c18.py (stream `tables`): the driver prints every
generated row after the model's constructor stage, the harness prints what the real classes
hold in `_data_A/_data_B/_data_C/_rrec/_rnew/_fe`, and both must be bit-identical.
"""
import os
import re
import subprocess
import sys

sys.path.insert(0, os.path.dirname(os.path.abspath(__file__)))
import vlib

OUT = os.path.join(vlib.LEAN, "CMacVerif", "Gen", "Verner.lean")

# (Z, N) pairs whose rows are generated in addition to the tracked ions: they make every branch of
# the model of get_cross_section_verner / get_recombination_rate_verner reachable in the
# correspondence run (outer-shell overrides nz == ne > 18, nz == ne + 1 in {20,21,22,25,26},
# einn = 0 elements, helium-like ions, the iron fits)
EXTRA_XS = [(2, 1), (3, 3), (15, 15), (19, 19), (20, 19), (21, 20), (26, 26), (26, 25)]
EXTRA_REC = [(1, 1), (2, 2), (2, 1), (3, 3), (11, 11), (12, 11), (16, 16), (20, 19)] + [(26, n) for n in range(1, 27)]

ION_CTORS = ["H_n", "He_n", "C_p1", "C_p2", "N_n", "N_p1", "N_p2", "O_n", "O_p1", "Ne_n", "Ne_p1", "S_p1", "S_p2", "S_p3"]


class TranslateError(Exception):
    pass


NUM = re.compile(r"^[+-]?(\d*)(?:\.(\d*))?(?:[eE]([+-]?\d+))?$")


def lit(tok):
    """decimal literal of a data file -> Lean scientific literal with the same exact value"""
    m = NUM.match(tok)
    if not m:
        raise TranslateError("not a decimal literal: %r" % tok)
    neg = tok.startswith("-")
    ip, fp, ex = m.group(1) or "0", m.group(2) or "0", m.group(3)
    if not (m.group(1) or m.group(2)):
        raise TranslateError("not a decimal literal: %r" % tok)
    s = "%s.%s" % (ip, fp)
    if ex is not None:
        s += "e%d" % int(ex)
    return "(-%s)" % s if neg else s


def shell_of(n, l):
    """the (n, l) -> shell number rule of the VernerCrossSections constructor (lines 72-81)"""
    if n < 3:
        return n + l
    n += 1
    return n + l if n < 5 else n + 2


def parse_A(repo):
    A = {}
    for ln in open(os.path.join(repo, "data", "verner_A.dat")):
        if ln[0] == "#" or not ln.strip():
            continue
        w = ln.split()
        if len(w) != 10:
            raise TranslateError("verner_A.dat: unexpected line %r" % ln)
        Z, N, n, l = map(int, w[:4])
        A[(Z, N, shell_of(n, l))] = (n, l, w[4:])
    return A


def parse_B(repo):
    B = {}
    for ln in open(os.path.join(repo, "data", "verner_B.dat")):
        if ln[0] == "#" or not ln.strip():
            continue
        w = ln.split()
        if len(w) != 11:
            raise TranslateError("verner_B.dat: unexpected line %r" % ln)
        B[(int(w[0]), int(w[1]))] = w[2:]
    return B


def parse_C(repo):
    C = {}
    for ln in open(os.path.join(repo, "data", "verner_C.dat")):
        if ln[0] == "#" or not ln.strip():
            continue
        w = ln.split()
        if len(w) != 3:
            raise TranslateError("verner_C.dat: unexpected line %r" % ln)
        C[int(w[0])] = (int(w[1]), int(w[2]))
    return C


def parse_rec(repo):
    """same reading order as the VernerRecombinationRates constructor"""
    lines = open(os.path.join(repo, "data", "verner_rec_data.txt")).read().split("\n")
    pos = [0]

    def nxt():
        l = lines[pos[0]]
        pos[0] += 1
        return l

    nxt()  # comment
    nxt()  # comment "rrec"
    rrec = [[nxt().split() for j in range(30)] for i in range(2)]
    nxt()
    rnew = [[nxt().split() for j in range(30)] for i in range(4)]
    nxt()
    fe = [nxt().split() for i in range(3)]
    for blk in rrec + rnew:
        for row in blk:
            if len(row) < 30:
                raise TranslateError("verner_rec_data.txt: row with %d < 30 columns" % len(row))
    for row in fe:
        if len(row) < 13:
            raise TranslateError("verner_rec_data.txt: fe row with %d < 13 columns" % len(row))
    return rrec, rnew, fe


def extract_switch(repo, cfg):
    """ion name -> [(Z, N, shell)] from the switch of get_cross_section (preprocessed text)"""
    src = os.path.join(repo, "src", "VernerCrossSections.cpp")
    p = subprocess.run(["g++", "-std=c++11", "-E", "-P", "-Wno-cpp", "-D" + vlib.GUARD, "-I" + os.path.join(repo, "src"), "-I" + cfg, src],
                       stdout=subprocess.PIPE, stderr=subprocess.PIPE, text=True)
    if p.returncode != 0:
        raise TranslateError("cannot preprocess VernerCrossSections.cpp: " + p.stderr[-500:])
    txt = p.stdout
    m = re.search(r"double\s+VernerCrossSections::get_cross_section\s*\(\s*const\s+int_fast32_t\s+ion\s*,\s*const\s+double\s+(\w+)\s*\)\s*const\s*\{", txt)
    if not m:
        raise TranslateError("get_cross_section not found")
    evar = m.group(1)
    body = txt[m.end():]
    sw = re.search(r"switch\s*\(\s*ion\s*\)\s*\{", body)
    if not sw:
        raise TranslateError("switch (ion) not found")
    body = body[sw.end():]
    dflt = body.find("default:")
    if dflt < 0:
        raise TranslateError("default label not found")
    body = body[:dflt]
    parts = re.split(r"case\s+ION_(\w+)\s*:", body)
    if parts[0].strip():
        raise TranslateError("unexpected text before the first case: %r" % parts[0][:80])
    mapping = []
    call = r"get_cross_section_verner\s*\(\s*(\d+)\s*,\s*(\d+)\s*,\s*(\d+)\s*,\s*%s\s*\)" % re.escape(evar)
    for name, stmt in zip(parts[1::2], parts[2::2]):
        s = stmt.strip()
        mm = re.match(r"^return\s+(%s(?:\s*\+\s*%s)*)\s*;$" % (call, call), s, flags=re.S)
        if not mm:
            raise TranslateError("case ION_%s: statement not of the form `return csv(..) + csv(..);`: %r" % (name, s[:120]))
        shells = [(int(a), int(b), int(c)) for a, b, c in re.findall(call, s)]
        mapping.append((name, shells))
    if not mapping:
        raise TranslateError("empty switch")
    return mapping


PROBE = r"""
#include "ElementNames.hpp"
#include "PhysicalConstants.hpp"
#include "PlanckPhotonSourceSpectrum.hpp"
#include <cstdio>
int main() {
%s
  std::printf("NUMBER_OF_IONNAMES %%d\n", (int)NUMBER_OF_IONNAMES);
  std::printf("PLANCK %%.17g\n", PhysicalConstants::get_physical_constant(PHYSICALCONSTANT_PLANCK));
  std::printf("ELECTRONVOLT %%.17g\n", PhysicalConstants::get_physical_constant(PHYSICALCONSTANT_ELECTRONVOLT));
  std::printf("BOLTZMANN %%.17g\n", PhysicalConstants::get_physical_constant(PHYSICALCONSTANT_BOLTZMANN));
  std::printf("PLANCK_NUMFREQ %%d\n", (int)PLANCKPHOTONSOURCESPECTRUM_NUMFREQ);
  return 0;
}
"""


def probe_enums(repo, cfg, names):
    os.makedirs(vlib.BIN, exist_ok=True)
    src = os.path.join(vlib.BUILD, "c18_probe.cpp")
    exe = os.path.join(vlib.BIN, "c18_probe")
    with open(src, "w") as f:
        f.write(PROBE % "\n".join('  std::printf("ION %s %%d\\n", (int)ION_%s);' % (n, n) for n in names))
    p = subprocess.run(["g++", "-std=c++11", "-O0", "-Wno-cpp", "-D" + vlib.GUARD, "-I" + os.path.join(repo, "src"), "-I" + cfg, src, "-o", exe],
                       stdout=subprocess.PIPE, stderr=subprocess.STDOUT, text=True)
    if p.returncode != 0:
        raise TranslateError("enum probe does not compile: " + p.stdout[-800:])
    out = subprocess.run([exe], stdout=subprocess.PIPE, text=True).stdout
    ions, consts = {}, {}
    for l in out.split("\n"):
        w = l.split()
        if not w:
            continue
        if w[0] == "ION":
            ions[w[1]] = int(w[2])
        else:
            consts[w[0]] = w[1]
    return ions, consts


def shortest(x17):
    """shortest decimal that round-trips to the same double (this reproduces the source literal)"""
    return repr(float(x17))


def generate(repo=None, write=True):
    repo = repo or vlib.REPO
    cfg = vlib.ensure_configured()
    A, B, C = parse_A(repo), parse_B(repo), parse_C(repo)
    rrec, rnew, fe = parse_rec(repo)
    mapping = extract_switch(repo, cfg)
    names = [n for n, _ in mapping]
    ions, consts = probe_enums(repo, cfg, names)
    nion = int(consts["NUMBER_OF_IONNAMES"])
    if sorted(ions.values()) != list(range(nion)):
        raise TranslateError("the switch of get_cross_section does not cover the IonName enum: %r vs %d ions" % (ions, nion))
    for n in names:
        if n not in ION_CTORS:
            raise TranslateError("ion %s of the C++ has no constructor in Model/VernerTypes.lean (model out of date)" % n)
    by_index = sorted(names, key=lambda n: ions[n])

    tracked = []
    for n, sh in mapping:
        for s in sh:
            if s not in tracked:
                tracked.append(s)
    # the rows of the specification (Model/VernerTypes.lean: ionShellsSpec) are always generated, so
    # that the driver can evaluate the specified sum even when the C++ switch has changed
    spec_src = open(os.path.join(vlib.LEAN, "CMacVerif", "Model", "VernerTypes.lean"), encoding="utf-8").read()
    m = re.search(r"def ionShellsSpec.*?\n((?:\s*\|.*\n)+)", spec_src)
    if not m:
        raise TranslateError("ionShellsSpec not found in Model/VernerTypes.lean")
    for a, b, c in re.findall(r"\((\d+),\s*(\d+),\s*(\d+)\)", m.group(1)):
        s = (int(a), int(b), int(c))
        if s not in tracked:
            tracked.append(s)
    pairs = []
    for (Z, N, s) in tracked:
        if (Z, N) not in pairs:
            pairs.append((Z, N))
    tracked_pairs = list(pairs)
    for p in EXTRA_XS:
        if p not in pairs:
            pairs.append(p)
    rowsA = []
    for (Z, N) in pairs:
        if N not in C:
            raise TranslateError("verner_C.dat has no line for N = %d" % N)
        shells = sorted(s for (z, n, s) in A if z == Z and n == N)
        if (Z, N) in tracked_pairs:
            need = set(s for (z, n, s) in tracked if z == Z and n == N)
            need.add(C[N][0])           # the inner shell whose threshold is einn
            shells = [s for s in shells if s in need and s > 0]
        for s in shells:
            rowsA.append((Z, N, s))
    for s in tracked:
        if s not in A:
            raise TranslateError("verner_A.dat has no line for shell %r used by get_cross_section" % (s,))
    # verner_B.dat has no line for the elements whose einn is forced to 0 (the B fit is never used there)
    for (Z, N) in tracked_pairs:
        if (Z, N) not in B:
            raise TranslateError("verner_B.dat has no line for (%d, %d)" % (Z, N))
    pairsB = [p for p in pairs if p in B]
    rec_tracked = [p for p in tracked_pairs if p not in ((1, 1), (2, 2))]
    rec_pairs = list(rec_tracked)
    for p in EXTRA_REC:
        if p not in rec_pairs:
            rec_pairs.append(p)

    o = []
    w = o.append
    w("import CMacVerif.Model.VernerTypes")
    w("/-! GENERATED by tools/gen_c18_tables.py on every run of the C18 check — do not edit.")
    w("Sources: data/verner_A.dat, verner_B.dat, verner_C.dat, verner_rec_data.txt (literals copied digit")
    w("for digit), the switch of VernerCrossSections::get_cross_section (preprocessed), enum values and")
    w("physical constants by evaluation.  Core Lean only. -/")
    w("set_option linter.unusedSectionVars false")
    w("namespace CMacVerif.Gen.Verner")
    w("open CMacVerif.Verner")
    w("")
    w("/-- value of the `IonName` enumerator -> ion -/")
    w("def ionOfIndex : Nat → Option Ion")
    for n in by_index:
        w("  | %d => some .%s" % (ions[n], n))
    w("  | _ => none")
    w("")
    w("def numberOfIons : Nat := %d" % nion)
    w("/-- PLANCKPHOTONSOURCESPECTRUM_NUMFREQ -/")
    w("def planckNumFreq : Nat := %d" % int(consts["PLANCK_NUMFREQ"]))
    w("")
    w("/-- the `get_cross_section_verner(Z, N, shell, energy)` calls summed by `get_cross_section`, in code order -/")
    w("def ionShells : Ion → List (Nat × Nat × Nat)")
    for n, sh in mapping:
        w("  | .%s => [%s]" % (n, ", ".join("(%d, %d, %d)" % s for s in sh)))
    w("")
    w("/-- every (Z, N, shell) some tracked ion uses -/")
    w("def usedShells : List (Nat × Nat × Nat) := [%s]" % ", ".join("(%d, %d, %d)" % s for s in tracked))
    w("")
    w("/-- (Z, N) of the `get_recombination_rate_verner` calls of the tracked metal ions -/")
    w("def recPairs : List (Nat × Nat) := [%s]" % ", ".join("(%d, %d)" % p for p in rec_tracked))
    w("")
    w("/-- all generated rows (tracked + the extra ones used only to reach every branch of the model) -/")
    w("def allShells : List (Nat × Nat × Nat) := [%s]" % ", ".join("(%d, %d, %d)" % s for s in rowsA))
    w("def allPairs : List (Nat × Nat) := [%s]" % ", ".join("(%d, %d)" % p for p in pairs))
    w("def allRecPairs : List (Nat × Nat) := [%s]" % ", ".join("(%d, %d)" % p for p in rec_pairs))
    w("")
    w("/-- `verner_C.dat`: N ↦ (Ninn, Ntot) -/")
    w("def dataC : Nat → Nat × Nat")
    for N in sorted(C):
        w("  | %d => (%d, %d)" % (N, C[N][0], C[N][1]))
    w("  | _ => (0, 0)")
    w("")
    w("section")
    w("variable {α : Type} [OfScientific α] [Neg α]")
    w("")
    w("/-- PhysicalConstants: PHYSICALCONSTANT_ELECTRONVOLT, PHYSICALCONSTANT_PLANCK (shortest round-trip decimals) -/")
    w("def electronvolt : α := %s" % lit(shortest(consts["ELECTRONVOLT"])))
    w("def planck : α := %s" % lit(shortest(consts["PLANCK"])))
    w("def boltzmann : α := %s" % lit(shortest(consts["BOLTZMANN"])))
    w("")
    w("def zeroA : RawA α := ⟨0.0, 0.0, 0.0, 0.0, 0.0, 0.0, 0.0⟩")
    w("/-- `_data_A[Z-1][N-1][shell-1]` as it stands in verner_A.dat: ⟨l, E_th, E_0, sigma_0, y_a, P, y_w⟩ -/")
    w("def dataA : Nat → Nat → Nat → RawA α")
    for (Z, N, s) in rowsA:
        n, l, v = A[(Z, N, s)]
        w("  | %d, %d, %d => ⟨%d.0, %s⟩  -- n=%d l=%d" % (Z, N, s, l, ", ".join(lit(t) for t in v), n, l))
    w("  | _, _, _ => zeroA")
    w("")
    w("def zeroB : RawB α := ⟨0.0, 0.0, 0.0, 0.0, 0.0, 0.0, 0.0⟩")
    w("/-- `_data_B[Z-1][N-1]` as it stands in verner_B.dat: ⟨E_0, sigma_0, y_a, P, y_w, y_0, y_1⟩ (E_th, E_max are not stored) -/")
    w("def dataB : Nat → Nat → RawB α")
    for (Z, N) in pairsB:
        v = B[(Z, N)]
        w("  | %d, %d => ⟨%s⟩" % (Z, N, ", ".join(lit(t) for t in v[2:])))
    w("  | _, _ => zeroB")
    w("")
    w("def zeroR : RecRow α := ⟨0.0, 0.0, 0.0, 0.0, 0.0, 0.0⟩")
    w("/-- verner_rec_data.txt: ⟨rrec[0], rrec[1], rnew[0], rnew[1], rnew[2], rnew[3]⟩[Z-1][N-1] -/")
    w("def recRow : Nat → Nat → RecRow α")
    for (Z, N) in rec_pairs:
        v = [rrec[0][Z - 1][N - 1], rrec[1][Z - 1][N - 1]] + [rnew[i][Z - 1][N - 1] for i in range(4)]
        w("  | %d, %d => ⟨%s⟩" % (Z, N, ", ".join(lit(t) for t in v)))
    w("  | _, _ => zeroR")
    w("")
    w("/-- `_fe[0..2][N-1]` -/")
    w("def feRow : Nat → FeRow α")
    for j in range(13):
        w("  | %d => ⟨%s⟩" % (j + 1, ", ".join(lit(fe[i][j]) for i in range(3))))
    w("  | _ => ⟨0.0, 0.0, 0.0⟩")
    w("")
    w("end")
    w("")
    w("/-! unfolding lemmas (definitional), one per generated row: `simp` / `norm_num` rewrite a lookup with")
    w("literal indices into the row -/")
    w("section")
    w("variable {α : Type} [OfScientific α] [Neg α]")
    for (Z, N, s) in rowsA:
        n, l, v = A[(Z, N, s)]
        w("@[simp] theorem dataA_%d_%d_%d : dataA (α := α) %d %d %d = ⟨%d.0, %s⟩ := rfl" % (Z, N, s, Z, N, s, l, ", ".join(lit(t) for t in v)))
    for (Z, N) in pairsB:
        v = B[(Z, N)]
        w("@[simp] theorem dataB_%d_%d : dataB (α := α) %d %d = ⟨%s⟩ := rfl" % (Z, N, Z, N, ", ".join(lit(t) for t in v[2:])))
    for (Z, N) in rec_pairs:
        v = [rrec[0][Z - 1][N - 1], rrec[1][Z - 1][N - 1]] + [rnew[i][Z - 1][N - 1] for i in range(4)]
        w("@[simp] theorem recRow_%d_%d : recRow (α := α) %d %d = ⟨%s⟩ := rfl" % (Z, N, Z, N, ", ".join(lit(t) for t in v)))
    for j in range(13):
        w("@[simp] theorem feRow_%d : feRow (α := α) %d = ⟨%s⟩ := rfl" % (j + 1, j + 1, ", ".join(lit(fe[i][j]) for i in range(3))))
    w("end")
    w("")
    w("end CMacVerif.Gen.Verner")
    text = "\n".join(o) + "\n"
    if write:
        old = open(OUT).read() if os.path.exists(OUT) else None
        if old != text:
            os.makedirs(os.path.dirname(OUT), exist_ok=True)
            with open(OUT + ".tmp", "w") as f:
                f.write(text)
            os.replace(OUT + ".tmp", OUT)
    info = dict(pairsB=pairsB, ions=[(n, ions[n], sh) for n, sh in mapping], rowsA=rowsA, pairs=pairs, rec_pairs=rec_pairs,
                tracked=tracked, rec_tracked=rec_tracked, text=text, nion=nion)
    return info


if __name__ == "__main__":
    i = generate()
    print("wrote %s: %d ions, %d A rows, %d B rows, %d recombination rows" % (OUT, len(i["ions"]), len(i["rowsA"]), len(i["pairs"]), len(i["rec_pairs"])))
