#!/usr/bin/env python3
"""Translator for C09 (DESIGN §2.2): regenerates lean/CMacVerif/Gen/RestartSchemas.lean from /repo.

For every class with a `write_restart_file(RestartWriter&)` / `Class(RestartReader&)` pair (and the
factories, `LiveOutputManager::{write,read}_restart_info`, and the top-level dump of
TaskBasedRadiationHydrodynamicsSimulation::do_simulation) the function bodies are parsed (a small
statement parser: blocks, for, if/else, simple statements) and the restart I/O operations are
extracted in code order, INDEPENDENTLY for the write side and the read side:

  write side:  restart_writer.write(EXPR)              type of EXPR from the member / local declaration
               OBJ.write_restart_file(restart_writer)  class of OBJ from its declaration
  read side:   restart_reader.read< T >()              T as written
               Class(restart_reader), _member(restart_reader) in initialiser lists, new Class(...)

Loops with a literal bound are unrolled, the other loops keep their bound as an expression of integer
items written/read earlier, expressed as a De Bruijn index (number of integer items between the item
and the loop), so the comparison does not depend on variable names.  Widths and kinds of the C++
types, enum constants, macros and typeid names are obtained by compiling a probe against the headers.
Anything that is not understood raises (fail closed).

Also extracted: for DensitySubGrid / HydroDensitySubGrid the members that are NOT stored, with the
expression each constructor (normal, restart) uses, and the limiter reset loops.
"""
import os
import re
import subprocess
import sys

sys.path.insert(0, os.path.dirname(os.path.abspath(__file__)))
import vlib

OUT = os.path.join(vlib.LEAN, "CMacVerif", "Gen", "RestartSchemas.lean")


class GenError(RuntimeError):
    pass


def fail(msg):
    raise GenError("gen_c09_schemas: " + msg)


# --------------------------------------------------------------------------- text utilities

def strip_comments(text):
    out, i, n = [], 0, len(text)
    while i < n:
        c = text[i]
        if c == '"':
            j = i + 1
            while j < n and text[j] != '"':
                j += 2 if text[j] == "\\" else 1
            out.append(text[i:j + 1])
            i = j + 1
        elif text.startswith("//", i):
            j = text.find("\n", i)
            i = n if j < 0 else j
        elif text.startswith("/*", i):
            j = text.find("*/", i + 2)
            seg = text[i:(n if j < 0 else j + 2)]
            out.append("\n" * seg.count("\n"))
            i = n if j < 0 else j + 2
        else:
            out.append(c)
            i += 1
    return "".join(out)


def match_close(text, i, op="(", cl=")"):
    """text[i] == op; index of the matching closer"""
    assert text[i] == op, (text[i:i + 20], op)
    depth = 0
    j = i
    while j < len(text):
        c = text[j]
        if c == '"':
            j += 1
            while text[j] != '"':
                j += 2 if text[j] == "\\" else 1
        elif c == op:
            depth += 1
        elif c == cl:
            depth -= 1
            if depth == 0:
                return j
        j += 1
    fail("unbalanced %s%s" % (op, cl))


def match_angle(text, i):
    assert text[i] == "<"
    depth, j = 0, i
    while j < len(text):
        if text[j] == "<":
            depth += 1
        elif text[j] == ">":
            depth -= 1
            if depth == 0:
                return j
        elif text[j] in ";{}":
            break
        j += 1
    fail("unbalanced <> near %r" % text[i:i + 40])


def norm(s):
    return re.sub(r"\s+", "", s)


def normtype(t):
    t = re.sub(r"\s+", " ", t.strip())
    t = re.sub(r"\bconst\b", "", t).strip()
    t = re.sub(r"\s*([<>,:*&])\s*", r"\1", t)
    t = t.replace("CoordinateVector<>", "CoordinateVector<double>").replace("Box<>", "Box<double>")
    return t


def preprocess(text, defined):
    """resolve #if/#ifdef/#ifndef/#else/#endif with the given macro table (name -> bool)"""
    out, stack = [], []
    for line in text.split("\n"):
        s = line.strip()
        m = re.match(r"#\s*(ifdef|ifndef|if|elif|else|endif)\b\s*(.*)", s)
        if m:
            d, arg = m.group(1), m.group(2).strip()
            if d in ("ifdef", "ifndef"):
                if arg not in defined:
                    fail("macro %s used in a restart function is not in the probe table" % arg)
                stack.append(defined[arg] if d == "ifdef" else not defined[arg])
            elif d == "if" or d == "elif":
                fail("unsupported preprocessor directive in a restart function: " + s)
            elif d == "else":
                stack[-1] = not stack[-1]
            else:
                stack.pop()
            out.append("")
            continue
        if s.startswith("#"):
            out.append("")
            continue
        out.append(line if all(stack) else "")
    return "\n".join(out)


# --------------------------------------------------------------------------- source model

class Cls:
    def __init__(self, name, file, text, bases, tparams):
        self.name, self.file, self.text, self.bases, self.tparams = name, file, text, bases, tparams
        self.members = {}     # name -> (type, dims)
        self.write = None     # (argname, body)
        self.read = None      # (argname, initlist, body)
        self.extra = {}


def find_classes(file, text):
    res = []
    for m in re.finditer(r"(template\s*<([^;{}]*?)>\s*)?\bclass\s+(\w+)\s*(:[^;{]*)?\{", text):
        tpar = []
        if m.group(1):
            tpar = [(a, (d or "").strip()) for a, d in re.findall(r"(?:typename|class)\s+(\w+)\s*(?:=\s*([\w:<> ]+))?", m.group(2))]
        ob = m.end() - 1
        try:
            cb = match_close(text, ob, "{", "}")
        except GenError:
            continue
        bases = re.findall(r"(?:public|protected|private)\s+([\w:]+(?:\s*<[^{]*?>)?)", m.group(4) or "")
        res.append(Cls(m.group(3), file, text[ob + 1:cb], [normtype(b) for b in bases], tpar))
    return res


def depth1(text):
    """text of a class body with the bodies of nested braces removed (member declarations stay);
    anonymous union / struct blocks are transparent"""
    out, depth, stack = [], 0, []
    i = 0
    while i < len(text):
        c = text[i]
        if c == "{":
            transparent = depth == 0 and re.search(r"\b(union|struct)\s*$", text[:i]) is not None
            stack.append(transparent)
            if transparent:
                out.append(";")
            else:
                depth += 1
                if depth == 1:
                    out.append("{}")
        elif c == "}":
            transparent = stack.pop() if stack else False
            if transparent:
                out.append(";")
            else:
                depth -= 1
                if depth == 0:
                    out.append(";")
        elif depth == 0:
            out.append(c)
        i += 1
    return "".join(out)


DECL = re.compile(r"(?:static\s+|mutable\s+)?((?:const\s+)?[A-Za-z_][\w:]*(?:\s*<.*>)?(?:::\w+)?(?:\s*[*&])?)\s*(\*?\s*_\w+)\s*((?:\[[^\]]*\])*)", re.S)


def find_members(cls):
    d = depth1(cls.text)
    d = re.sub(r"\b(public|private|protected)\s*:", ";", d)
    for seg in re.split(r"[;{}]", d):
        m = DECL.fullmatch(seg.strip())
        if not m:
            continue
        t, name, dims = m.group(1), m.group(2), m.group(3)
        name = name.replace(" ", "")
        t = normtype(t)
        if name.startswith("*"):
            name, t = name[1:], t + "*"
        if t.split("<")[0] in ("return", "delete", "else", "typedef", "using", "friend", "class", "struct"):
            continue
        cls.members[name] = (t, re.findall(r"\[([^\]]*)\]", dims))


def parse_initlist(text, i):
    """text[i] == ':'; returns (entries [(name, open, args)], index of the body '{')"""
    entries = []
    j = i + 1
    while True:
        m = re.compile(r"\s*([\w:]+(?:\s*<[^(){};]*?>)?)\s*([({])").match(text, j)
        if not m:
            fail("cannot parse constructor initialiser list near %r" % text[j:j + 60])
        op = m.group(2)
        k = match_close(text, m.end() - 1, op, ")" if op == "(" else "}")
        entries.append((m.group(1).replace(" ", ""), op, text[m.end():k]))
        m2 = re.compile(r"\s*([,{])").match(text, k + 1)
        if not m2:
            fail("cannot parse constructor initialiser list near %r" % text[k:k + 60])
        if m2.group(1) == "{":
            return entries, m2.end() - 1
        j = m2.end()


def find_restart_functions(cls):
    t = cls.text
    for m in re.finditer(r"\bwrite_restart_(?:file|info)\s*\(\s*RestartWriter\s*&\s*(\w+)\s*([^)]*)\)\s*(?:const)?\s*\{", t):
        ob = m.end() - 1
        cb = match_close(t, ob, "{", "}")
        body = t[ob + 1:cb]
        extra = m.group(2).strip()
        if extra:
            cls.extra["static_write"] = (m.group(1), extra, body)
        else:
            if cls.write is not None:
                fail("class %s has two write_restart_file functions" % cls.name)
            cls.write = (m.group(1), body)
    for m in re.finditer(r"\b" + cls.name + r"\s*\(\s*RestartReader\s*&\s*(\w+)\s*[^)]*\)\s*([:{])", t):
        if m.group(2) == ":":
            init, ob = parse_initlist(t, m.end() - 1)
        else:
            init, ob = [], m.end() - 1
        cb = match_close(t, ob, "{", "}")
        if cls.read is not None:
            fail("class %s has two restart constructors" % cls.name)
        cls.read = (m.group(1), init, t[ob + 1:cb])
    m = re.search(r"\bread_restart_info\s*\(\s*RestartReader\s*&\s*(\w+)\s*\)\s*\{", t)
    if m:
        ob = m.end() - 1
        cls.read = (m.group(1), [], t[ob + 1:match_close(t, ob, "{", "}")])
    m = re.search(r"\bstatic\s+[\w:<> ]+\*\s*restart\s*\(\s*RestartReader\s*&\s*(\w+)[^)]*\)\s*\{", t)
    if m:
        ob = m.end() - 1
        cls.extra["static_read"] = (m.group(1), t[ob + 1:match_close(t, ob, "{", "}")])


# --------------------------------------------------------------------------- statement parser

def parse_stmts(text):
    """-> list of ('for', header, body) | ('if', cond, then, else) | ('block', body) | ('stmt', text)"""
    res, i, n = [], 0, len(text)
    kw = re.compile(r"(for|if|while|switch|do|else)\b")
    while i < n:
        if text[i].isspace() or text[i] == ";":
            i += 1
            continue
        if text[i] == "{":
            j = match_close(text, i, "{", "}")
            res.append(("block", parse_stmts(text[i + 1:j])))
            i = j + 1
            continue
        m = kw.match(text, i)
        if m and m.group(1) in ("for", "if", "while", "switch"):
            p = text.index("(", m.end())
            if text[m.end():p].strip():
                fail("cannot parse statement near %r" % text[i:i + 60])
            q = match_close(text, p)
            head = text[p + 1:q]
            body, i = parse_one(text, q + 1)
            if m.group(1) == "if":
                els = []
                m2 = re.compile(r"\s*else\b").match(text, i)
                if m2:
                    els, i = parse_one(text, m2.end())
                res.append(("if", head, body, els))
            else:
                res.append((m.group(1), head, body))
            continue
        if m:
            fail("unsupported statement %r in a restart function" % text[i:i + 40])
        j = stmt_end(text, i)
        res.append(("stmt", text[i:j].strip()))
        i = j + 1
    return res


def stmt_end(text, i):
    depth = 0
    j = i
    while j < len(text):
        c = text[j]
        if c == '"':
            j += 1
            while text[j] != '"':
                j += 2 if text[j] == "\\" else 1
        elif c in "({[":
            depth += 1
        elif c in ")}]":
            depth -= 1
        elif c == ";" and depth == 0:
            return j
        j += 1
    return len(text)


def parse_one(text, i):
    while i < len(text) and text[i].isspace():
        i += 1
    if i < len(text) and text[i] == "{":
        j = match_close(text, i, "{", "}")
        return parse_stmts(text[i + 1:j]), j + 1
    m = re.compile(r"(for|if|while|switch)\b").match(text, i)
    if m:
        p = text.index("(", m.end())
        q = match_close(text, p)
        body, j = parse_one(text, q + 1)
        node = (m.group(1), text[p + 1:q], body)
        if m.group(1) == "if":
            els = []
            m2 = re.compile(r"\s*else\b").match(text, j)
            if m2:
                els, j = parse_one(text, m2.end())
            node = ("if", text[p + 1:q], body, els)
        return [node], j
    j = stmt_end(text, i)
    return [("stmt", text[i:j].strip())], j + 1


# --------------------------------------------------------------------------- the extractor

# IR items:
#  ("prim", ctype, name)         one primitive of C++ type ctype; name = canonical text of what is written / assigned
#  ("class", classname, name)
#  ("rep", boundtext, [items])   data-dependent loop / condition (bound 0/1)
#  ("factory", base, name)

class Side:
    """extraction context of one function"""

    def __init__(self, gen, cls, targs, io, kind, what):
        self.gen, self.cls, self.targs, self.io, self.kind, self.what = gen, cls, targs, io, kind, what
        self.locals = {}      # name -> ctype
        self.defs = {}        # name -> defining expression text (locals that are not read/written themselves)

    def subst(self, t):
        t = normtype(t)
        for k, v in self.targs.items():
            t = re.sub(r"\b%s\b" % re.escape(k), v, t)
        return normtype(t)

    def err(self, msg):
        fail("%s of %s: %s" % (self.kind, self.what, msg))

    # ---- declarations
    def note_decl(self, stmt):
        m = re.match(r"(?:const\s+)?((?:typename\s+)?[A-Za-z_][\w:]*(?:\s*<.*?>)?(?:::\w+)?)\s+(\w+)\s*(=\s*(.*))?$", stmt, flags=re.S)
        if not m or m.group(1) in ("return", "delete", "new", "else"):
            return None
        t, name, rhs = m.group(1).replace("typename ", ""), m.group(2), m.group(4)
        if t == "auto":
            if rhs is None:
                self.err("auto without initialiser: " + stmt)
            r = norm(rhs)
            if r.endswith(".size()"):
                t = "size_t"
            elif r.endswith("tellp()"):
                t = "std::streampos"
            else:
                self.err("cannot deduce the type of 'auto %s = %s'" % (name, rhs))
        t = self.subst(t)
        if re.search(r"::size_type$", t):
            t = "size_t"
        self.locals[name] = t
        if rhs is not None:
            self.defs[name] = rhs.strip()
        return name

    def type_of(self, expr):
        """C++ type of a written expression (write side)"""
        e = norm(expr)
        m = re.fullmatch(r"(\*?)(\w+)((?:\[[^\]]*\])*)", e)
        if m:
            name, idx = m.group(2), re.findall(r"\[([^\]]*)\]", m.group(3))
            if name in self.locals:
                t = self.locals[name]
            else:
                t, dims = self.gen.member(self.cls, name, self)
                t = self.subst(t)
            for _ in idx:
                mv = re.fullmatch(r"std::vector<(.*)>", t)
                if mv:
                    t = normtype(mv.group(1))
                # plain arrays: the element type is t itself
            if m.group(1) == "*":
                t = t.rstrip("*")
            return t
        m = re.fullmatch(r"(\w+)->(first|second)", e)
        if m:
            it = m.group(1)
            d = self.defs.get(it)
            if d:
                cont = re.match(r"\s*(\w+)\s*\.\s*begin\(\)", d)
                if cont:
                    t, _ = self.gen.member(self.cls, cont.group(1), self)
                    mm = re.fullmatch(r"std::map<(.*),(.*)>", self.subst(t))
                    if mm:
                        return normtype(mm.group(1 if m.group(2) == "first" else 2))
        self.err("cannot determine the type of the written expression %r" % expr)

    def class_of(self, expr):
        e = norm(expr)
        m = re.fullmatch(r"\(?\*?(\w+)\)?((?:\[[^\]]*\])*)", e)
        if not m:
            self.err("cannot determine the class of %r" % expr)
        name = m.group(1)
        if name in self.locals:
            t = self.locals[name]
        else:
            t, dims = self.gen.member(self.cls, name, self)
            t = self.subst(t)
        for _ in re.findall(r"\[([^\]]*)\]", m.group(2)):
            mv = re.fullmatch(r"std::vector<(.*)>", t)
            if mv:
                t = normtype(mv.group(1))
        return t.rstrip("*&")

    # ---- operations inside one simple statement, in textual order
    def ops_of(self, text, init_member=None):
        io = self.io
        found = []   # (pos, item)
        ntok = len(re.findall(r"\b%s\b" % io, text))
        used = 0
        if self.kind == "write":
            for m in re.finditer(r"\b%s\s*(?:\.|->)\s*write\s*\(" % io, text):
                k = match_close(text, m.end() - 1)
                arg = text[m.end():k]
                found.append((m.start(), ("prim", self.type_of(arg), norm(arg))))
                used += 1
            for m in re.finditer(r"([\w\]\[\*\(\)]+?)\s*(?:\.|->)\s*write_restart_(?:file|info)\s*\(\s*\*?\s*%s\s*\)" % io, text):
                found.append((m.start(), ("class", self.class_of(m.group(1)), norm(m.group(1)))))
                used += 1
            for m in re.finditer(r"(?<![\w.>])(\w+)\s*::\s*write_restart_file\s*\(\s*\*?\s*%s\s*(,\s*\*?\s*(\w+)\s*)?\)" % io, text):
                if m.group(2):
                    found.append((m.start(), ("factory", m.group(1), norm(m.group(3)))))
                else:
                    found.append((m.start(), ("class", normtype(m.group(1)), "base")))
                used += 1
        else:
            for m in re.finditer(r"\b%s\s*(?:\.|->)\s*read\s*<" % io, text):
                k = match_angle(text, m.end() - 1)
                t = self.subst(text[m.end():k])
                if re.search(r"::size_type$", t):
                    t = "size_t"
                if not re.match(r"\s*\(\s*\)", text[k + 1:]):
                    self.err("read< > not followed by (): " + text)
                found.append((m.start(), ("prim", t, None)))
                used += 1
            for m in re.finditer(r"(?<![\w.>:])(new\s+)?([A-Za-z_]\w*(?:\s*<[^()]*?>)?)\s*\(\s*\*?\s*%s\s*(?:,\s*\w+\s*)?\)" % io, text):
                cname = self.subst(m.group(2))
                if cname in ("restart", "read_restart_info"):
                    continue
                if init_member is not None and m.start() == 0 and norm(m.group(2)) == init_member:
                    continue   # handled by the caller (member of class type)
                found.append((m.start(), ("class", cname, None)))
                used += 1
            for m in re.finditer(r"(?<![\w.>])(\w+)\s*::\s*restart\s*\(\s*\*?\s*%s\s*(?:,\s*\w+\s*)?\)" % io, text):
                found.append((m.start(), ("factory", m.group(1), None)))
                used += 1
            for m in re.finditer(r"([\w\]\[]+)\s*(?:\.|->)\s*read_restart_info\s*\(\s*\*?\s*%s\s*\)" % io, text):
                found.append((m.start(), ("class", self.class_of(m.group(1)), norm(m.group(1)))))
                used += 1
        found.sort(key=lambda x: x[0])
        return [f[1] for f in found], used, ntok

    def stmt_items(self, stmt):
        name = self.note_decl(stmt) if self.io not in stmt.split("=")[0] else None
        ops, used, ntok = self.ops_of(stmt)
        if ntok == 0:
            return []
        if self.kind == "read" and re.search(r"\b(delete)\s+%s\b" % self.io, stmt):
            return []
        if self.kind == "read" and re.fullmatch(r"(RestartReader\s*\*\s*)?%s\s*=\s*(nullptr|RestartManager::get_restart_reader\(.*\))" % self.io, stmt.strip(), flags=re.S):
            return []
        if self.kind == "write" and re.match(r"(RestartWriter\s*\*\s*%s\s*=|delete\s+%s\b)" % (self.io, self.io), stmt.strip()):
            return []
        if used != ntok:
            self.err("statement mentions %s %d times but only %d restart operations were recognised: %r" % (self.io, ntok, used, stmt))
        if self.kind == "read":
            if len(ops) > 1:
                # several reads in one statement: only a braced list guarantees left-to-right order
                self.err("several reads in one statement (evaluation order?): %r" % stmt)
            m = re.match(r"(?:const\s+)?(?:[\w:<>,\s\*]+?\s+)?\*?([\w\[\]\.\->]+)\s*=[^=]", stmt, flags=re.S)
            target = norm(m.group(1)) if m else None
            if target is None:
                m = re.match(r"return\b", stmt)
                target = "return" if m else None
            ops = [(o[0], o[1], target) for o in ops]
            if name is not None and ops and ops[0][0] == "prim":
                self.locals[name] = ops[0][1]
                self.defs.pop(name, None)
        return ops

    def init_items(self, entries):
        """constructor initialiser list of a restart constructor"""
        items = []
        for (name, op, args) in entries:
            n = len(re.findall(r"\b%s\b" % self.io, args))
            if n == 0:
                continue
            if re.fullmatch(r"\s*%s\s*(,\s*\w+\s*)?" % self.io, args):
                # member of class type or base class constructed from the reader
                base = [b for b in self.cls.bases if b.split("<")[0] == name.split("<")[0]]
                if base:
                    items.append(("class", self.subst(base[0]), "base"))
                else:
                    t, dims = self.gen.member(self.cls, name, self)
                    items.append(("class", self.subst(t), name))
                continue
            ops, used, ntok = self.ops_of(args)
            if used != ntok:
                self.err("initialiser %s%s...: %d of %d restart operations recognised" % (name, op, used, ntok))
            if len(ops) > 1 and op != "{":
                self.err("several reads in a parenthesised initialiser (evaluation order?): %s" % name)
            for i, o in enumerate(ops):
                items.append((o[0], o[1], name if len(ops) == 1 else "%s[%d]" % (name, i)))
        # members are initialised in declaration order: the list must be in that order
        order = [e[0] for e in entries if e[0] in self.gen.all_members(self.cls)]
        decl = [m for m in self.gen.all_members(self.cls) if m in order]
        if order != decl:
            self.err("initialiser list order %r differs from the declaration order %r" % (order, decl))
        return items

    # ---- loops and conditions
    def const_value(self, text):
        t = norm(text)
        if re.fullmatch(r"\d+", t):
            return int(t)
        if re.fullmatch(r"[A-Z][A-Z0-9_]+", t):
            return self.gen.constant(t)
        return None

    def loop_bound(self, head):
        parts = [p.strip() for p in head.split(";")]
        if len(parts) != 3:
            self.err("cannot parse for-header %r" % head)
        m = re.match(r"(?:const\s+)?([\w:<>,\s]+?)\s+(\w+)\s*=\s*(.+)$", parts[0], flags=re.S)
        if not m:
            self.err("cannot parse for-init %r" % parts[0])
        var, start = m.group(2), m.group(3).strip()
        m2 = re.fullmatch(r"%s\s*<\s*(.+)" % var, parts[1], flags=re.S)
        if m2 and norm(start) == "0" and norm(parts[2]) in ("++" + var, var + "++"):
            return var, m2.group(1).strip()
        m3 = re.fullmatch(r"%s\s*!=\s*(\w+)\s*\.\s*end\(\)" % var, parts[1])
        if m3 and norm(start) == m3.group(1) + ".begin()" and norm(parts[2]) in ("++" + var, var + "++"):
            self.defs[var] = start
            return var, m3.group(1) + ".size()"
        self.err("unsupported loop header %r" % head)

    def items_of(self, nodes):
        res = []
        for nd in nodes:
            if nd[0] == "stmt":
                res += self.stmt_items(nd[1])
            elif nd[0] == "block":
                res += self.items_of(nd[1])
            elif nd[0] == "for":
                body_has_io = self.has_io(nd[2])
                if not body_has_io:
                    continue
                var, bound = self.loop_bound(nd[1])
                inner = self.items_of(nd[2])
                c = self.const_value(bound)
                if c is not None:
                    if c > 64:
                        self.err("literal loop bound %d too large to unroll" % c)
                    for k in range(c):
                        res += [self.rename(it, var, k) for it in inner]
                else:
                    res.append(("rep", bound, inner))
            elif nd[0] == "if":
                if not (self.has_io(nd[2]) or self.has_io(nd[3])):
                    # conditions on the reader itself select the restart path
                    continue
                res += self.cond_items(nd)
            else:
                if self.has_io(nd[2]):
                    self.err("restart I/O inside a %s statement" % nd[0])
        return res

    def cond_items(self, nd):
        cond = norm(nd[1])
        if cond in (self.io + "!=nullptr",):
            if self.has_io(nd[3]):
                self.err("restart I/O in the else branch of %r" % nd[1])
            return self.items_of(nd[2])
        if cond in (self.io + "==nullptr",):
            if self.has_io(nd[2]):
                self.err("restart I/O in the no-restart branch of %r" % nd[1])
            return self.items_of(nd[3])
        if self.has_io(nd[3]):
            self.err("restart I/O in an else branch: if (%s)" % nd[1])
        return [("rep", "?" + nd[1].strip(), self.items_of(nd[2]))]

    def has_io(self, nodes):
        for nd in nodes:
            if nd[0] == "stmt":
                if re.search(r"\b%s\b" % self.io, nd[1]):
                    return True
            elif nd[0] == "block":
                if self.has_io(nd[1]):
                    return True
            elif nd[0] == "if":
                if self.has_io(nd[2]) or self.has_io(nd[3]):
                    return True
            else:
                if self.has_io(nd[2]):
                    return True
        return False

    def rename(self, it, var, k):
        def r(s):
            return re.sub(r"\[%s\]" % var, "[%d]" % k, s) if isinstance(s, str) else s
        if it[0] == "rep":
            return ("rep", r(it[1]), [self.rename(x, var, k) for x in it[2]])
        return (it[0], it[1], r(it[2]))


class Gen:
    def __init__(self, repo):
        self.repo = repo
        self.src = os.path.join(repo, "src")
        self.classes = {}
        self.files = {}
        self.defined = {}
        self.consts = {}
        self.types = {}       # ctype -> (kind, width)
        self.tags = {}        # class -> typeid name
        self.notes = []
        self.memo = {}
        self.load()

    # ---- loading
    def load(self):
        names = sorted(f for f in os.listdir(self.src) if f.endswith((".hpp", ".cpp")))
        for f in names:
            raw = open(os.path.join(self.src, f), encoding="utf-8", errors="replace").read()
            if "RestartWriter" not in raw and "RestartReader" not in raw:
                continue
            if f in ("RestartWriter.hpp", "RestartReader.hpp"):
                continue
            self.files[f] = raw
        if len(self.files) < 20:
            fail("only %d files mention RestartWriter/RestartReader" % len(self.files))
        # macros used inside the class texts
        macros = set()
        for f, raw in self.files.items():
            macros |= set(re.findall(r"#\s*ifn?def\s+(\w+)", raw))
        macros = {m for m in macros if not m.endswith("_HPP")}
        self.probe_macros(sorted(macros))
        for f, raw in self.files.items():
            text = preprocess(strip_comments(raw), dict(self.defined, **{m: False for m in re.findall(r"#\s*ifndef\s+(\w+_HPP)", raw)}))
            self.files[f] = text
            for c in find_classes(f, text):
                if c.name in self.classes:
                    continue
                find_members(c)
                find_restart_functions(c)
                self.classes[c.name] = c

    def probe(self, body, includes):
        d = os.path.join(vlib.BUILD, "c09_probe")
        os.makedirs(d, exist_ok=True)
        src = os.path.join(d, "probe.cpp")
        with open(src, "w") as f:
            f.write("#include <cstdio>\n#include <cstdint>\n#include <cinttypes>\n#include <string>\n#include <map>\n#include <vector>\n#include <typeinfo>\n#include <type_traits>\n#include <fstream>\n")
            for inc in includes:
                f.write('#include "%s"\n' % inc)
            f.write("template <typename T> void P(const char *n) {\n"
                    "  const char *k = std::is_same<T, bool>::value ? \"bool\" : std::is_floating_point<T>::value ? \"float\" :\n"
                    "    std::is_integral<T>::value ? (std::is_signed<T>::value ? \"sint\" : \"uint\") : std::is_same<T, std::string>::value ? \"str\" :\n"
                    "    std::is_same<T, std::map<std::string, std::string> >::value ? \"smap\" : std::is_trivially_copyable<T>::value ? \"raw\" : \"other\";\n"
                    "  printf(\"T|%s|%s|%zu\\n\", n, k, sizeof(T)); }\n")
            f.write("int main() {\n" + body + "return 0; }\n")
        cfg = vlib.ensure_configured()
        exe = os.path.join(d, "probe")
        cmd = ["g++", "-std=c++11", "-O0", "-w", "-fopenmp", "-I" + self.src, "-I" + cfg]
        try:
            nin = open(os.path.join(vlib.FULL, "build.ninja")).read()
            for inc in sorted(set(re.findall(r"-I(/usr/[^ \n]+)", nin))):
                cmd.append("-I" + inc)
        except OSError:
            pass
        libs = []
        try:
            m = re.search(r"LINK_LIBRARIES = (.*)", nin)
            if m:
                sos = []
                for so in re.findall(r"(/usr/\S+\.so)", m.group(1)):
                    if so not in sos:
                        sos.append(so)
                libs = sos + ["-Wl,-rpath," + ":".join(sorted(set(os.path.dirname(so) for so in sos)))] if sos else []
        except NameError:
            pass
        rc, out = vlib.sh(cmd + [src, "-o", exe] + libs)
        if rc != 0:
            fail("probe does not compile:\n" + out[-3000:])
        rc, out = vlib.sh([exe])
        if rc != 0:
            fail("probe failed: " + out[-500:])
        return out

    def probe_macros(self, macros):
        body = "".join('#ifdef %s\n  printf("M|%s|1\\n");\n#else\n  printf("M|%s|0\\n");\n#endif\n' % (m, m, m) for m in macros)
        incs = ["Configuration.hpp", "DensitySubGrid.hpp", "HydroDensitySubGrid.hpp", "DensityGrid.hpp", "IonizationVariables.hpp"]
        for l in self.probe(body, incs).split("\n"):
            w = l.split("|")
            if len(w) == 3 and w[0] == "M":
                self.defined[w[1]] = (w[2] == "1")

    def probe_types(self, ctypes, consts, tagged):
        incs = ["Configuration.hpp", "OperatingSystem.hpp", "CoordinateVector.hpp", "TravelDirections.hpp", "IonizationVariables.hpp",
                "DensitySubGrid.hpp", "HydroDensitySubGrid.hpp", "PhotonSourceDistributionFactory.hpp", "HydroMaskFactory.hpp", "DensityGridFactory.hpp"]
        body = ""
        for t in ctypes:
            body += '  P< %s >("%s");\n' % (t, t)
        for c in consts:
            body += '  printf("C|%s|%%lld\\n", (long long)(%s));\n' % (c, c)
        for c in tagged:
            # Itanium ABI name of a class in the global namespace (typeid(X).name() needs the key function's
            # object file for some classes; the real tags reach the check through the bytes the harness and
            # the real binary write, which the generated schema must decode)
            self.tags[c] = "%d%s" % (len(c), c)
        for l in self.probe(body, incs).split("\n"):
            w = l.split("|")
            if w[0] == "T":
                self.types[w[1]] = (w[2], int(w[3]))
            elif w[0] == "C":
                self.consts[w[1]] = int(w[2])
            elif w[0] == "G":
                self.tags[w[1]] = w[2]

    # ---- lookups
    def cls(self, name):
        base = name.split("<")[0]
        if base not in self.classes:
            fail("class %s not found among the files that mention RestartWriter/RestartReader" % name)
        return self.classes[base]

    def targs_of(self, name):
        c = self.cls(name)
        m = re.fullmatch(r"\w+<(.*)>", name)
        args = [a.strip() for a in m.group(1).split(",")] if m and m.group(1).strip() else []
        res = {}
        for i, (p, d) in enumerate(c.tparams):
            if i < len(args) and args[i]:
                res[p] = args[i]
            elif d:
                res[p] = d
            else:
                fail("template argument %s of %s unknown" % (p, name))
        return res

    def member(self, cls, name, side):
        c = cls
        seen = 0
        while c is not None and seen < 6:
            if name in c.members:
                return c.members[name]
            c = self.classes.get(c.bases[0].split("<")[0]) if c.bases else None
            seen += 1
        side.err("no declaration found for %r" % name)

    def all_members(self, cls):
        res = []
        chain = []
        c = cls
        while c is not None and len(chain) < 6:
            chain.append(c)
            c = self.classes.get(c.bases[0].split("<")[0]) if c.bases else None
        for c in reversed(chain):
            res += list(c.members.keys())
        return res

    def constant(self, name):
        if name not in self.consts:
            self.pending_consts.add(name)
            return 1
        return self.consts[name]

    # ---- per class IR (one level, class references not expanded)
    def class_items(self, name, kind):
        key = (name, kind)
        if key in self.memo:
            return self.memo[key]
        c = self.cls(name)
        targs = self.targs_of(name)
        if kind == "write":
            if c.write is None:
                fail("class %s has no write_restart_file" % name)
            io, body = c.write
            s = Side(self, c, targs, io, "write", name)
            items = s.items_of(parse_stmts(body))
        else:
            if c.read is None:
                fail("class %s has no restart constructor" % name)
            io, init, body = c.read
            s = Side(self, c, targs, io, "read", name)
            items = s.init_items(init) + s.items_of(parse_stmts(body))
        self.memo[key] = (items, s)
        return self.memo[key]


# --------------------------------------------------------------------------- factories and the top level

FACTORIES = {"PhotonSourceDistributionFactory": "PhotonSourceDistribution", "HydroMaskFactory": "HydroMask", "DensityGridFactory": "DensityGrid"}


def factory_items(gen, fac, kind):
    """tag string, then the class selected by the tag.  write side: virtual dispatch = every subclass
    of the base that overrides write_restart_file with a real body; read side: the if-chain of restart()"""
    c = gen.cls(fac)
    base = FACTORIES[fac]
    if kind == "write":
        io, extra, body = c.extra["static_write"]
        nb = norm(body)
        m = re.fullmatch(r"conststd::stringtag=typeid\((\w+)\)\.name\(\);%s\.write\(tag\);(\w+)\.write_restart_file\(%s\);" % (io, io), nb)
        if not m or m.group(1) != m.group(2):
            fail("unexpected body of %s::write_restart_file: %s" % (fac, body.strip()))
        subs = []
        for n, k in sorted(gen.classes.items()):
            if k.write is not None and derives(gen, k, base) and "cmac_error" not in k.write[1]:
                subs.append(n)
        return subs
    io, body = c.extra["static_read"]
    nb = norm(body)
    m = re.match(r"conststd::stringtag=%s\.read<std::string>\(\);" % io, nb)
    if not m:
        fail("unexpected start of %s::restart: %s" % (fac, body.strip()[:120]))
    chain = re.findall(r"if\(tag==typeid\((\w+)\)\.name\(\)\)\{returnnew(\w+)\(%s(?:,log)?\);\}" % io, nb)
    rest = re.sub(r"(else)?if\(tag==typeid\((\w+)\)\.name\(\)\)\{returnnew(\w+)\(%s(?:,log)?\);\}" % io, "", nb[m.end():])
    if not re.fullmatch(r"else\{cmac_error\(.*\);returnnullptr;\}", rest):
        fail("unexpected shape of %s::restart (left over: %s)" % (fac, rest[:200]))
    for a, b in chain:
        if a != b:
            fail("%s::restart: tag of %s constructs %s" % (fac, a, b))
    return sorted(a for a, b in chain)


def derives(gen, k, base):
    seen = 0
    while k is not None and seen < 6:
        for b in k.bases:
            if b.split("<")[0] == base:
                return True
        k = gen.classes.get(k.bases[0].split("<")[0]) if k.bases else None
        seen += 1
    return False


TOP_FILE = "TaskBasedRadiationHydrodynamicsSimulation.cpp"
# (normalised condition on the write side, parameter tested on the read side, option index)
TOP_OPTIONS = [("hydro_mask!=nullptr", "TaskBasedRadiationHydrodynamicsSimulation:use mask", 0),
               ("turbulence_forcing!=nullptr", "TaskBasedRadiationHydrodynamicsSimulation:turbulent forcing", 1)]


class TopCls:
    """the function do_simulation seen as a 'class': locals are its members"""

    def __init__(self, text):
        self.name, self.bases, self.members, self.tparams = "do_simulation", [], {}, []
        self.text = text


def top_level(gen):
    text = gen.files.get(TOP_FILE)
    if text is None:
        fail(TOP_FILE + " not found")
    m = re.search(r"int\s+TaskBasedRadiationHydrodynamicsSimulation::do_simulation\s*\([^)]*\)\s*\{", text)
    if not m:
        fail("do_simulation not found")
    ob = m.end() - 1
    body = text[ob + 1:match_close(text, ob, "{", "}")]
    nodes = parse_stmts(body)
    top = TopCls(body)
    # locals of the function = every declaration at any depth (names are unique in this function)
    for dm in re.finditer(r"(?:^|[;{}])\s*(?:const\s+)?((?:u?int_(?:fast|least)\d+_t|uint\d+_t|size_t|double|bool|Timer|[A-Z]\w*(?:<[^;=()]*>)?)\s*\*?)\s*(\w+(?:\s*,\s*\w+)*)\s*(?==|;|\()", body):
        t = normtype(dm.group(1))
        for nm in dm.group(2).split(","):
            nm = nm.strip()
            if nm and nm not in top.members:
                top.members[nm] = (t, [])
    res = {}
    for kind, io in (("write", "restart_writer"), ("read", "restart_reader")):
        s = Side(gen, top, {}, io, kind, "do_simulation")
        s.locals = {k: v[0] for k, v in top.members.items()}
        items = []
        # the write side lives inside the time loop: descend everywhere, keep code order
        items = top_items(gen, s, nodes)
        res[kind] = (items, s)
    return res


def top_items(gen, s, nodes):
    res = []
    for nd in nodes:
        if nd[0] == "stmt":
            res += s.stmt_items(nd[1])
        elif nd[0] == "block":
            res += top_items(gen, s, nd[1])
        elif nd[0] in ("for", "while"):
            if s.has_io(nd[2]):
                if nd[0] == "while" and s.kind == "write":
                    res += top_items(gen, s, nd[2])     # the time loop: one dump per iteration
                else:
                    s.err("restart I/O inside a loop of do_simulation: %s (%s)" % (nd[0], nd[1][:60]))
        elif nd[0] == "if":
            if not (s.has_io(nd[2]) or s.has_io(nd[3])):
                continue
            cond = norm(nd[1])
            if s.kind == "read":
                if cond == 'parser.was_found("restart")' or cond == s.io + "!=nullptr":
                    if s.has_io(nd[3]):
                        s.err("read in the else branch of %r" % nd[1])
                    res += top_items(gen, s, nd[2])
                    continue
                if cond == s.io + "==nullptr":
                    if s.has_io(nd[2]):
                        s.err("read in the no-restart branch")
                    res += top_items(gen, s, nd[3])
                    continue
                opt = [o for o in TOP_OPTIONS if ('"' + o[1] + '"') in nd[1] and "get_value<bool>" in cond]
                if opt and not s.has_io(nd[3]):
                    res.append(("rep", "ext%d" % opt[0][2], top_items(gen, s, nd[2])))
                    continue
                s.err("restart read under an unknown condition: if (%s)" % nd[1][:100])
            else:
                if "write_restart_file()" in cond and "stop_simulation" in cond:
                    res += top_items(gen, s, nd[2])     # the dump block itself
                    continue
                opt = [o for o in TOP_OPTIONS if cond == o[0]]
                if opt and not s.has_io(nd[3]):
                    res.append(("rep", "ext%d" % opt[0][2], top_items(gen, s, nd[2])))
                    continue
                s.err("restart write under an unknown condition: if (%s)" % nd[1][:100])
        else:
            if s.has_io(nd[2]):
                s.err("restart I/O inside %s" % nd[0])
    return res


# --------------------------------------------------------------------------- resolution to schemas

class Resolver:
    """IR (names, C++ types, class references) -> closed schema terms with De Bruijn indices"""

    def __init__(self, gen, kind):
        self.gen, self.kind = gen, kind
        self.ctypes, self.consts, self.tagged = set(), set(), set()

    def collect(self, items, cname):
        """first pass: which C++ types / constants / classes are needed"""
        for it in items:
            if it[0] == "prim":
                self.ctypes.add(it[1])
            elif it[0] == "class":
                sub, _ = self.gen.class_items(it[1], self.kind)
                self.collect(sub, it[1])
            elif it[0] == "factory":
                for sc in factory_items(self.gen, it[1], self.kind):
                    self.tagged.add(sc)
                    sub, _ = self.gen.class_items(sc, self.kind)
                    self.collect(sub, sc)
            elif it[0] == "rep":
                self.collect(it[2], cname)

    # scope = list of (name, kind) of integer items visible, most recent LAST; strs similarly
    def resolve(self, items, side, ints, strs, prefix=""):
        out = []
        ints, strs = list(ints), list(strs)
        for it in items:
            if it[0] == "prim":
                kind, w = self.gen.types.get(it[1], (None, 0))
                if kind is None:
                    fail("C++ type %r of %s was not probed" % (it[1], it[2]))
                p = {"bool": "bool", "float": "f64", "sint": "int", "uint": "int", "str": "str", "smap": "smap", "raw": "raw"}.get(kind)
                if p is None or (kind == "float" and w != 8):
                    fail("unsupported C++ type %r (%s, %d bytes) in a restart function" % (it[1], kind, w))
                out.append(("prim", p, w, kind, prefix + (it[2] or "?")))
                if p in ("int", "bool"):
                    ints.append(prefix + (it[2] or "?"))
                elif p == "str":
                    strs.append(prefix + (it[2] or "?"))
            elif it[0] == "class":
                sub, s2 = self.gen.class_items(it[1], self.kind)
                pre = prefix + (it[2] + "." if it[2] not in (None, "base", "return") else "")
                r, ints, strs = self.resolve(sub, s2, ints, strs, pre)
                out += r
            elif it[0] == "factory":
                out.append(("prim", "str", 8, "str", prefix + "tag"))
                strs.append(prefix + "tag")
                for sc in factory_items(self.gen, it[1], self.kind):
                    sub, s2 = self.gen.class_items(sc, self.kind)
                    r, _, _ = self.resolve(sub, s2, ints, strs, prefix + sc + ".")
                    tag = self.gen.tags.get(sc)
                    if tag is None:
                        fail("typeid name of %s was not probed" % sc)
                    out.append(("rep", ("tagIs", 0, tag), r, "tag == typeid(%s)" % sc))
            elif it[0] == "rep":
                c = self.count(it[1], side, ints, prefix)
                r, _, _ = self.resolve(it[2], side, ints, strs, prefix)
                out.append(("rep", c, r, it[1]))
        return out, ints, strs

    def count(self, text, side, ints, prefix):
        t = text.strip()
        if t.startswith("ext"):
            return ("ext", int(t[3:]))
        if t.startswith("?"):
            return self.factor(t[1:].strip(), side, ints, prefix)
        return self.product(t, side, ints, prefix)

    def product(self, text, side, ints, prefix, depth=0):
        if depth > 6:
            fail("count expression too deep: " + text)
        fs = [f.strip() for f in text.split("*")]
        res = None
        for f in fs:
            e = self.factor(f, side, ints, prefix, depth)
            res = e if res is None else ("mul", res, e)
        return res

    def factor(self, f, side, ints, prefix, depth=0):
        n = norm(f)
        if re.fullmatch(r"\d+", n):
            return ("lit", int(n))
        if re.fullmatch(r"[A-Z][A-Z0-9_]+", n):
            return ("lit", self.gen.consts[n]) if n in self.gen.consts else fail("constant %s not probed" % n)
        # accessor of a CoordinateVector member: x() -> _x
        m = re.fullmatch(r"(\w+)\.([xyz])\(\)", n)
        cand = []
        if m:
            cand.append("%s._%s" % (m.group(1), m.group(2)))
        cand.append(n)
        m = re.fullmatch(r"(\w+)\.size\(\)", n)
        if m:
            # the size of a container: the local that was defined as that size and written
            for k, d in side.defs.items():
                if norm(d) == n:
                    cand.append(k)
        for c in cand:
            full = prefix + c
            for i in range(len(ints) - 1, -1, -1):
                if ints[i] == full or ints[i] == c:
                    return ("var", len(ints) - 1 - i)
        if n in side.defs and n not in ints:
            return self.product(side.defs[n], side, ints, prefix, depth + 1)
        fail("%s of %s: loop bound / condition %r does not refer to an integer item that was %s before (in scope: %s)"
             % (side.kind, side.what, f, "written" if side.kind == "write" else "read", ints[-8:]))


# --------------------------------------------------------------------------- derived fields

def split_top(text, sep=","):
    out, depth, cur = [], 0, ""
    for c in text:
        if c in "({[":
            depth += 1
        elif c in ")}]":
            depth -= 1
        if c == sep and depth == 0:
            out.append(cur)
            cur = ""
        else:
            cur += c
    if cur.strip():
        out.append(cur)
    return [x.strip() for x in out]


class ExprParser:
    """tiny arithmetic expression parser -> DExpr terms"""

    def __init__(self, text, stored, subst):
        self.toks = re.findall(r"\d+\.\d*(?:[eE][-+]?\d+)?|\d+|[A-Za-z_]\w*(?:\[\d+\])?|[-+*/()]", text)
        if "".join(self.toks) != norm(text):
            fail("cannot tokenise expression %r" % text)
        self.i, self.stored, self.subst = 0, stored, subst

    def peek(self):
        return self.toks[self.i] if self.i < len(self.toks) else None

    def eat(self):
        t = self.toks[self.i]
        self.i += 1
        return t

    def parse(self):
        e = self.sum()
        if self.peek() is not None:
            fail("trailing tokens in expression")
        return e

    def sum(self):
        e = self.term()
        while self.peek() in ("+", "-"):
            op = self.eat()
            e = ("add" if op == "+" else "sub", e, self.term())
        return e

    def term(self):
        e = self.unary()
        while self.peek() in ("*", "/"):
            op = self.eat()
            e = ("mul" if op == "*" else "div", e, self.unary())
        return e

    def unary(self):
        if self.peek() == "-":
            self.eat()
            return ("neg", self.unary())
        if self.peek() == "(":
            self.eat()
            e = self.sum()
            if self.eat() != ")":
                fail("expected )")
            return e
        t = self.eat()
        if re.match(r"\d", t) or re.fullmatch(r"[A-Z][A-Z0-9_]+", t):
            return ("lit", t)
        t = self.subst.get(t, t)
        m = re.fullmatch(r"(_\w+)(?:\[(\d+)\])?", t)
        if m and (m.group(1), int(m.group(2) or 0)) in self.stored:
            return ("field", m.group(1), int(m.group(2) or 0))
        return ("other", t)


def derived_fields(gen, schemas):
    """members of DensitySubGrid / HydroDensitySubGrid that are not in the restart file: expression used
    by the normal constructor and by the restart constructor"""
    out = {"ctor": [], "restart": [], "limiters": {}}
    stored = set()
    lim_texts = []
    for cname in ("DensitySubGrid", "HydroDensitySubGrid"):
        items, _ = gen.class_items(cname, "write")
        for it in items:
            if it[0] == "prim":
                m = re.fullmatch(r"(_\w+)(?:\[(\d+)\])?", it[2])
                if m:
                    stored.add((m.group(1), int(m.group(2) or 0)))
            elif it[0] == "class" and it[2] not in ("base", None):
                m = re.fullmatch(r"(_\w+)(?:\[(\w+)\])?", it[2])
                if m and gen.member(gen.cls(cname), m.group(1), Side(gen, gen.cls(cname), {}, "x", "write", cname))[0].startswith("CoordinateVector"):
                    for k in range(3):
                        stored.add((m.group(1), k))
    for cname in ("DensitySubGrid", "HydroDensitySubGrid"):
        c = gen.cls(cname)
        # the normal constructor: (const double *box, const CoordinateVector< int_fast32_t > ncell)
        m = re.search(r"\b" + cname + r"\s*\(\s*const\s+double\s*\*\s*box\s*,[^)]*\bncell\s*\)\s*:", c.text)
        if not m:
            fail("normal constructor of %s not found" % cname)
        init, ob = parse_initlist(c.text, m.end() - 1)
        body = c.text[ob + 1:match_close(c.text, ob, "{", "}")]
        # stored members initialised by a bare constructor argument: argument -> stored member
        subst = {}
        assigns = []
        for (name, op, args) in init:
            parts = split_top(args)
            if name.split("<")[0] in [b.split("<")[0] for b in c.bases]:
                continue
            for k, a in enumerate(parts):
                lhs = (name, k) if len(parts) > 1 or c.members.get(name, ("", []))[1] else (name, 0)
                assigns.append((lhs, a))
        for lhs, a in assigns:
            if lhs in stored and re.fullmatch(r"\w+\[\d+\]|\w+", norm(a)):
                subst[norm(a)] = "%s[%d]" % lhs
        for lhs, a in assigns:
            if lhs not in stored:
                out["ctor"].append((cname, lhs, ExprParser(a, stored, subst).parse(), a))
        # the restart constructor body: assignments to non-stored members
        io, rinit, rbody = c.read
        for nd in parse_stmts(rbody):
            if nd[0] != "stmt" or re.search(r"\b%s\b" % io, nd[1]):
                continue
            mm = re.fullmatch(r"(_\w+)(?:\[(\d+)\])?\s*=\s*(.+)", nd[1], flags=re.S)
            if not mm:
                continue
            lhs = (mm.group(1), int(mm.group(2) or 0))
            if lhs in stored or "new " in mm.group(3):
                continue
            mv = re.fullmatch(r"CoordinateVector\s*<[^>]*>\s*\((.*)\)", mm.group(3).strip(), flags=re.S)
            if mv and mm.group(2) is None and len(split_top(mv.group(1))) == 3:
                for k, a in enumerate(split_top(mv.group(1))):
                    out["restart"].append((cname, (mm.group(1), k), ExprParser(a, stored, {}).parse(), a))
                continue
            out["restart"].append((cname, lhs, ExprParser(mm.group(3), stored, {}).parse(), mm.group(3)))
        # loops that assign constants to arrays (limiters, active buffers)
        for site, text in (("ctor", body), ("restart", rbody)):
            if cname == "HydroDensitySubGrid":
                lim_texts.append(text)
            out["limiters"][(cname, site)] = affine_assigns(parse_stmts(text), "_primitive_variable_limiters")
            if cname == "DensitySubGrid":
                ab = affine_assigns(parse_stmts(text), "_active_buffers")
                if ab:
                    out["restart" if site == "restart" else "ctor"].append((cname, ("_active_buffers", 0), ExprParser(ab[0][5], stored, {}).parse(), ab[0][5]))
    # the end-of-step reset in update_conserved_variables
    c = gen.cls("HydroDensitySubGrid")
    m = re.search(r"\bupdate_conserved_variables\s*\([^)]*\)\s*\{", c.text)
    if not m:
        fail("update_conserved_variables not found")
    ob = m.end() - 1
    lim_texts.append(c.text[ob + 1:match_close(c.text, ob, "{", "}")])
    out["limiters"][("HydroDensitySubGrid", "step")] = affine_assigns(parse_stmts(lim_texts[-1]), "_primitive_variable_limiters")
    # locals that denote the number of cells of the subgrid (their definitions are checked)
    okdefs = {"_number_of_cells[3]*ncell[0]", "_number_of_cells[0]*_number_of_cells[1]*_number_of_cells[2]",
              "_number_of_cells[0]*_number_of_cells[3]", "_number_of_cells[3]*_number_of_cells[0]"}
    out["cellcount_locals"] = set()
    for ftext in lim_texts:
        for mm in re.finditer(r"const\s+int_fast32_t\s+(\w+)\s*=\s*([^;]+);", ftext):
            if norm(mm.group(2)) in okdefs:
                out["cellcount_locals"].add(mm.group(1))
            elif mm.group(1) in ("tot_ncell", "number_of_cells", "tot_num_cells"):
                fail("%s is defined as %r, not as the number of cells" % (mm.group(1), mm.group(2)))
    # the creation path of the active buffers: DensitySubGridCreator::create_subgrid
    cr = gen.cls("DensitySubGridCreator")
    mm = re.search(r"set_active_buffer\s*\(\s*i\s*,\s*(\w+)\s*\)", cr.text)
    if not mm:
        fail("DensitySubGridCreator does not call set_active_buffer(i, ...)")
    out["ctor"].append(("DensitySubGrid", ("_active_buffers", 0), ("lit", mm.group(1)), mm.group(0)))
    return out, stored


def affine_assigns(nodes, array, loops=()):
    """assignments `array[a*i + b*j + c] = value` with their enclosing loop bounds"""
    res = []
    for nd in nodes:
        if nd[0] == "for":
            m = re.match(r"[\w:<>\s]+?\s+(\w+)\s*=\s*0\s*;\s*\1\s*<\s*([^;]+);", nd[1])
            if not m:
                if any(array in str(x) for x in nd[2]):
                    fail("cannot parse loop header around %s: %s" % (array, nd[1]))
                continue
            res += affine_assigns(nd[2], array, loops + ((m.group(1), norm(m.group(2))),))
        elif nd[0] == "block":
            res += affine_assigns(nd[1], array, loops)
        elif nd[0] == "if":
            res += affine_assigns(nd[2], array, loops) + affine_assigns(nd[3], array, loops)
        elif nd[0] == "stmt":
            m = re.fullmatch(re.escape(array) + r"\[([^\]]+)\]\s*=\s*(.+)", nd[1], flags=re.S)
            if not m:
                continue
            idx, val = norm(m.group(1)), norm(m.group(2))
            co = {"": 0}
            for term in idx.split("+"):
                mt = re.fullmatch(r"(?:(\d+)\*)?([a-z]\w*)", term)
                if mt:
                    co[mt.group(2)] = int(mt.group(1) or 1)
                elif re.fullmatch(r"\d+", term):
                    co[""] += int(term)
                else:
                    fail("index %r of %s is not affine" % (idx, array))
            vs = [l[0] for l in loops]
            if any(k not in vs for k in co if k):
                if re.search(r"original\.", val):
                    continue
                fail("index %r of %s uses a variable that is not a loop counter" % (idx, array))
            if re.search(r"original\.", val):
                continue
            li = loops[0] if loops else ("", "1")
            lj = loops[1] if len(loops) > 1 else ("", "1")
            res.append((co.get(li[0], 0) if li[0] else 0, co.get(lj[0], 0) if lj[0] else 0, co[""], li[1], lj[1], val))
    return res


# --------------------------------------------------------------------------- Lean output

def lean_cexp(c):
    if c[0] == "lit":
        return "(.lit %d)" % c[1]
    if c[0] == "var":
        return "(.var %d)" % c[1]
    if c[0] == "ext":
        return "(.ext %d)" % c[1]
    if c[0] == "mul":
        return "(.mul %s %s)" % (lean_cexp(c[1]), lean_cexp(c[2]))
    if c[0] == "tagIs":
        return "(.tagIs %d [%s])" % (c[1], ", ".join(str(b) for b in c[2].encode()))
    fail("bad count expression %r" % (c,))


def lean_prim(it):
    p, w = it[1], it[2]
    if p == "int":
        return "(.int %d)" % w
    if p == "raw":
        return "(.raw %d)" % w
    return "." + p


def lean_sch(items, indent=2):
    """continuation style term; long chains of identical primitives are folded with `prims`"""
    pad = " " * indent
    lines = []
    close = 0
    i = 0
    while i < len(items):
        it = items[i]
        if it[0] == "prim":
            j = i
            while j < len(items) and items[j][0] == "prim" and items[j][1:3] == it[1:3]:
                j += 1
            n = j - i
            if n >= 3:
                lines.append("%sprims %d %s <|" % (pad, n, lean_prim(it)))
            else:
                for _ in range(n):
                    lines.append("%s.prim %s <|" % (pad, lean_prim(it)))
            i = j
        else:
            lines.append("%s.rep %s (" % (pad, lean_cexp(it[1])))
            lines.append(lean_sch(it[2], indent + 4))
            lines.append("%s) <|" % pad)
            i += 1
    lines.append("%s.done" % pad)
    return "\n".join(lines)


def lean_dexpr(e):
    if e[0] == "lit":
        return '(.lit "%s")' % e[1]
    if e[0] == "other":
        return '(.other "%s")' % e[1]
    if e[0] == "field":
        return '(.field "%s" %d)' % (e[1], e[2])
    if e[0] == "neg":
        return "(.neg %s)" % lean_dexpr(e[1])
    return "(.%s %s %s)" % (e[0], lean_dexpr(e[1]), lean_dexpr(e[2]))


def flat_prims(items):
    n = 0
    for it in items:
        n += 1 if it[0] == "prim" else flat_prims(it[2])
    return n


def sign_notes(w, r, path, notes):
    for a, b in zip(w, r):
        if a[0] == "prim" and b[0] == "prim":
            if a[1:3] == b[1:3] and a[3] != b[3]:
                notes.append("%s: written as %s (%s), read as %s (%s): same width" % (path, a[3], a[4], b[3], b[4]))
        elif a[0] == "rep" and b[0] == "rep":
            sign_notes(a[2], b[2], path, notes)


def first_diff(a, b, path=""):
    """first position where two resolved item lists differ (for the report)"""
    for i in range(max(len(a), len(b))):
        if i >= len(a) or i >= len(b):
            return "%sitem %d: %s" % (path, i, "only written: %r" % (a[i][:3],) if i < len(a) else "only read: %r" % (b[i][:3],))
        x, y = a[i], b[i]
        if x[0] != y[0]:
            return "%sitem %d: written %r, read %r" % (path, i, x[:3], y[:3])
        if x[0] == "prim":
            if x[1:3] != y[1:3]:
                return "%sitem %d: written as %s (%d bytes: %s), read as %s (%d bytes: %s)" % (path, i, x[1], x[2], x[4], y[1], y[2], y[4])
        else:
            if x[1] != y[1]:
                return "%sloop %d: count written %r (%s), read %r (%s)" % (path, i, x[1], x[3], y[1], y[3])
            d = first_diff(x[2], y[2], path + "loop %d / " % i)
            if d:
                return d
    return None


def lean_name(c):
    return re.sub(r"\W", "_", c).strip("_")


def generate(out_path=OUT):
    gen = Gen(vlib.REPO)
    gen.pending_consts = set()
    # classes with a write/read pair
    paired = sorted(n for n, c in gen.classes.items() if c.write is not None and c.read is not None)
    only_w = sorted(n for n, c in gen.classes.items() if c.write is not None and c.read is None and "cmac_error" not in c.write[1])
    only_r = sorted(n for n, c in gen.classes.items() if c.read is not None and c.write is None)
    if only_w or only_r:
        fail("classes with only one side of the restart pair: write only %r, read only %r" % (only_w, only_r))
    if len(paired) < 20:
        fail("only %d restartable classes found" % len(paired))
    # instantiations
    inst = []
    for n in paired:
        c = gen.classes[n]
        if not c.tparams:
            inst.append(n)
    inst += ["CoordinateVector<double>", "CoordinateVector<int_fast32_t>", "CoordinateVector<bool>", "Box<double>", "DensitySubGridCreator<HydroDensitySubGrid>"]
    top = top_level(gen)
    res = {}
    # pass 1: IR of everything (collects the constants it meets), then probe, then again with constants
    for attempt in range(2):
        gen.memo = {}
        gen.pending_consts = set()
        resolvers = {k: Resolver(gen, k) for k in ("write", "read")}
        for n in inst:
            for k in ("write", "read"):
                items, _ = gen.class_items(n, k)
                resolvers[k].collect(items, n)
        if attempt == 0:
            top = top_level(gen)
        for k in ("write", "read"):
            resolvers[k].collect(top[k][0], "do_simulation")
            for f in FACTORIES:
                if f in gen.classes and "static_write" in gen.classes[f].extra:
                    resolvers[k].collect([("factory", f, None)], f)
        if attempt == 0:
            consts = sorted(gen.pending_consts | {"TRAVELDIRECTION_NUMBER", "NUMBER_OF_IONNAMES"})
            gen.probe_types([], consts, [])
        else:
            if gen.pending_consts:
                fail("constants still unknown after the probe: %r" % sorted(gen.pending_consts))
            ctypes = sorted(resolvers["write"].ctypes | resolvers["read"].ctypes)
            tagged = sorted(resolvers["write"].tagged | resolvers["read"].tagged)
            gen.probe_types(ctypes, [], tagged)
        top = top_level(gen)
    schemas = {}
    notes = []
    for n in inst + ["do_simulation"]:
        pair = {}
        for k in ("write", "read"):
            if n == "do_simulation":
                items, side = top[k]
            else:
                items, side = gen.class_items(n, k)
            r, _, _ = resolvers[k].resolve(items, side, [], [])
            pair[k] = r
        schemas[n] = pair
        sign_notes(pair["write"], pair["read"], n, notes)
    facs = {}
    for f in FACTORIES:
        if f in gen.classes and "static_write" in gen.classes[f].extra:
            facs[f] = {k: factory_items(gen, f, k) for k in ("write", "read")}
            pair = {}
            for k in ("write", "read"):
                r, _, _ = resolvers[k].resolve([("factory", f, None)], None, [], [])
                pair[k] = r
            schemas[f] = pair
    derived, stored = derived_fields(gen, schemas)
    import gen_c09_members
    members = gen_c09_members.classify(gen, sys.modules[__name__], inst, top)
    write_lean(out_path, gen, schemas, derived, notes, facs, members)
    info = dict(classes=sorted(schemas), notes=sorted(set(notes)), types=gen.types, consts=gen.consts, tags=gen.tags,
                macros={k: v for k, v in gen.defined.items()}, factories=facs,
                prims={n: (flat_prims(p["write"]), flat_prims(p["read"])) for n, p in schemas.items()},
                equal={n: p["write_eq_read"] for n, p in schemas.items()},
                diff={n: first_diff(p["write"], p["read"]) for n, p in schemas.items() if not p["write_eq_read"]},
                derived={k: v for k, v in derived.items() if k != "cellcount_locals"}, files=sorted(gen.files), members=members)
    return info


def strip_names(items):
    out = []
    for it in items:
        if it[0] == "prim":
            out.append(("prim", it[1], it[2]))
        else:
            out.append(("rep", it[1], strip_names(it[2])))
    return out


def write_lean(path, gen, schemas, derived, notes, facs, members=()):
    L = []
    L.append("import CMacVerif.Model.RestartCodec")
    L.append("/-! GENERATED by tools/gen_c09_schemas.py from %s/src on every run of the C09 check — do not edit.\n" % "/repo")
    L.append("Per restartable class: what `write_restart_file` writes and what the restart constructor reads,")
    L.append("extracted independently from the two function bodies (nested classes expanded, literal loops unrolled,")
    L.append("data-dependent loop counts as De Bruijn references to integer items written/read before).\n")
    L.append("type table (probe): " + ", ".join("%s=%s/%d" % (t, k, w) for t, (k, w) in sorted(gen.types.items())))
    L.append("constants (probe): " + ", ".join("%s=%d" % kv for kv in sorted(gen.consts.items())))
    L.append("typeid names (probe): " + ", ".join("%s=%s" % kv for kv in sorted(gen.tags.items())))
    L.append("external options of the top-level dump: 0 = hydro mask in use, 1 = turbulence forcing in use")
    for n in sorted(set(notes)):
        L.append("note: " + n)
    L.append("-/")
    L.append("namespace CMacVerif.Gen.RestartSchemas")
    L.append("open CMacVerif.RestartCodec\n")
    L.append("/-- `n` consecutive items of the same primitive kind -/")
    L.append("def prims : Nat → Prim → Sch → Sch\n  | 0, _, r => r\n  | n + 1, p, r => .prim p (prims n p r)\n")
    names = []
    for n in sorted(schemas):
        p = schemas[n]
        ln = lean_name(n)
        names.append((n, ln))
        for k in ("write", "read"):
            L.append("/-- %s side of %s (%d primitive items per pass) -/" % (k, n, flat_prims(p[k])))
            L.append("def %s_%s : Sch :=\n%s\n" % (ln, k, lean_sch(p[k])))
        p["write_eq_read"] = strip_names(p["write"]) == strip_names(p["read"])
    L.append("/-- (name, write schema, read schema) of every restartable class, factory and the top-level dump -/")
    L.append("def all : List (String × Sch × Sch) := [\n" + ",\n".join('  ("%s", %s_write, %s_read)' % (n, ln, ln) for n, ln in names) + "]\n")
    # derived fields
    def dl(lst):
        return "[\n" + ",\n".join('  ("%s.%s[%d]", %s)' % (c, lhs[0], lhs[1], lean_dexpr(e)) for (c, lhs, e, txt) in sorted(lst, key=lambda x: (x[0], x[1]))) + "]"
    L.append("/-- members of DensitySubGrid / HydroDensitySubGrid that are not in the restart file, with the expression the\nnormal construction path gives them (constructor arguments replaced by the stored member they initialise) -/")
    L.append("def derivedCtor : List (String × DExpr) := " + dl(derived["ctor"]) + "\n")
    L.append("/-- the same members in the restart constructors -/")
    L.append("def derivedRestart : List (String × DExpr) := " + dl(derived["restart"]) + "\n")
    for (c, site), lst in sorted(derived["limiters"].items()):
        if c != "HydroDensitySubGrid":
            continue
        L.append("/-- assignments `_primitive_variable_limiters[ci*i + cj*j + c0] = value` for i < ni * (number of cells), j < nj in the %s -/" % {"ctor": "constructor", "restart": "restart constructor", "step": "last sweep of a step (update_conserved_variables)"}[site])
        rows = []
        for a in lst:
            mi = re.fullmatch(r"(?:(\d+)\*)?(\w+)", a[3])
            if not mi or mi.group(2) not in derived["cellcount_locals"] or not re.fullmatch(r"\d+", a[4]):
                fail("limiter loop bounds %r / %r in the %s are not (k *) <number of cells> / literal" % (a[3], a[4], site))
            rows.append("{ ci := %d, cj := %d, c0 := %d, ni := %d, nj := %d, value := %s }" % (a[0], a[1], a[2], int(mi.group(1) or 1), int(a[4]), lean_dexpr(ExprParser(a[5], set(), {}).parse())))
        L.append("def limiters_%s : List AffAssign := [" % site + ", ".join(rows) + "]\n")
    kinds = {"stored": ".stored", "storedVia": ".storedVia", "stored+derived": ".storedDerived", "derived": ".derived", "transient": ".transient",
             "rebuilt": ".rebuilt", "excluded": ".excluded", "alias": ".alias", "UNCLASSIFIED": ".unclassified"}
    L.append("/-- EVERY data member of every restartable class (from the class definitions) and every variable of do_simulation that is\ndeclared before the time loop and used inside it, with its classification (tools/gen_c09_members.py) -/")
    L.append("def members : List Member := [")
    rows = []
    for (c, m, t, k, d) in members:
        rows.append('  ⟨"%s", "%s", %s⟩  -- %s%s' % (c, m, kinds[k], t, (": " + re.sub(r"\s+", " ", d)[:200]) if d else ""))
    # the comma must precede the comment
    L.append("\n".join(r.replace("⟩  --", "⟩,  --") if i + 1 < len(rows) else r for i, r in enumerate(rows)))
    L.append("]\n")
    L.append("end CMacVerif.Gen.RestartSchemas")
    text = "\n".join(L) + "\n"
    old = open(path).read() if os.path.exists(path) else None
    if old != text:
        os.makedirs(os.path.dirname(path), exist_ok=True)
        with open(path, "w") as f:
            f.write(text)


if __name__ == "__main__":
    info = generate()
    for n in info["classes"]:
        print("%-48s prims write/read %s  %s" % (n, info["prims"][n], "same" if info["equal"][n] else "DIFFERENT"))
    for n in info["notes"]:
        print("note:", n)
