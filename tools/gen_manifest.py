#!/usr/bin/env python3
"""Writes MANIFEST.json from the table below (kept in one place so it is always valid)."""
import json, os
V = os.path.dirname(os.path.dirname(os.path.abspath(__file__)))
CHECKS = {}
NA = {}
def chk(pid, cat, text, note, technique, design):
    CHECKS[pid] = dict(property_id=pid, quick_cmd="python3 tools/check.py %s --tier quick" % pid,
        thorough_cmd="python3 tools/check.py %s --tier thorough" % pid,
        evidence_file="/verif/evidence/%s.json" % pid,
        replay_cmd_template="python3 tools/check.py %s --replay {path}" % pid,
        engine="lean4-proof+correspondence",
        level_claimed=dict(category=cat, text=text, design_ref=design), level_note=note, technique=technique)

exec(open(os.path.join(V, "tools", "manifest_table.py")).read())

m = dict(version=1,
  setup_cmd="cd /verif/lean && lake build CMacVerif Driver && python3 /verif/tools/setup.py",
  hooks=dict(guard="CMACIONIZE_VERIF",
     enable="harnesses: g++ -DCMACIONIZE_VERIF -I/repo/src ...; whole binary: cmake -S /repo -B /verif/.build/full -DCMAKE_CXX_FLAGS='-Wno-cpp -DCMACIONIZE_VERIF' (done by tools/vlib.py on every check)",
     baseline_off_cmd="cmake -G Ninja -S /repo -B /repo/_build && cmake --build /repo/_build -j16 && ctest --test-dir /repo/_build -j8 --timeout 900",
     source_commits=HOOK_COMMITS, add_only=True),
  engines=[dict(name="lean4-proof+correspondence", path="/verif/tools/check.py", serves_properties=sorted(CHECKS),
     kind_free_text="Lean 4 theorems about hand-written/generated models (lean/CMacVerif), axiom audit on every run, and a differential correspondence run of the same Lean definitions (compiled drivers) against the real C++ on generated inputs; property oracles evaluated on the implementation supply replays")],
  checks=[CHECKS[k] for k in sorted(CHECKS)],
  not_applicable=[dict(property_id=k, reason=NA[k]) for k in sorted(NA)],
  notes="See DESIGN.md. known_findings.txt lists genuine defects (fixed: / finding:).")
json.dump(m, open(os.path.join(V, "MANIFEST.json"), "w"), indent=1)
print("wrote MANIFEST.json with", len(CHECKS), "checks,", len(NA), "not applicable")
