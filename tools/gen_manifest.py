#!/usr/bin/env python3
"""Writes MANIFEST.json: one check per tools/props/cXX.py that defines MANIFEST; every other
property is listed under not_applicable with the reason from NOT_APPLICABLE below."""
import importlib, json, os, sys
V = os.path.dirname(os.path.dirname(os.path.abspath(__file__)))
sys.path.insert(0, os.path.join(V, "tools"))
HOOK_COMMITS = [l.strip() for l in open(os.path.join(V, "tools", "hook_commits.txt")) if l.strip() and not l.startswith("#")] if os.path.exists(os.path.join(V, "tools", "hook_commits.txt")) else []
NOT_APPLICABLE = {
 "C15": "Voronoi tessellation validity of two ~2000-line floating-point geometric constructions: no executable Lean model of feasible size can express it (DESIGN.md §7); the amenable parts are claimed under C16/C17",
}
PENDING = "check not built yet in this revision (planned, see DESIGN.md §6); not claimed until the model, theorems and correspondence exist"
checks, na = [], []
for i in range(1, 21):
    pid = "C%02d" % i
    try:
        mod = importlib.import_module("props." + pid.lower())
        M = getattr(mod, "MANIFEST", None)
    except ModuleNotFoundError:
        M = None
    if M is None or pid in NOT_APPLICABLE:
        na.append(dict(property_id=pid, reason=NOT_APPLICABLE.get(pid, PENDING)))
        continue
    checks.append(dict(property_id=pid, quick_cmd="python3 tools/check.py %s --tier quick" % pid,
        thorough_cmd="python3 tools/check.py %s --tier thorough" % pid,
        evidence_file="/verif/evidence/%s.json" % pid,
        replay_cmd_template="python3 tools/check.py %s --replay {path}" % pid,
        engine="lean4-proof+correspondence",
        level_claimed=dict(category=M["category"], text=M["text"], design_ref=M.get("design", "DESIGN.md §6 " + pid)),
        level_note=M["note"], technique=M["technique"]))
m = dict(version=1,
  setup_cmd="python3 /verif/tools/setup.py",
  hooks=dict(guard="CMACIONIZE_VERIF",
     enable="harnesses: g++ -DCMACIONIZE_VERIF -I/repo/src ...; whole binary: cmake -S /repo -B /verif/.build/full -DCMAKE_CXX_FLAGS='-Wno-cpp -DCMACIONIZE_VERIF' (done by tools/vlib.py on every check)",
     baseline_off_cmd="cmake -G Ninja -S /repo -B /repo/_build && cmake --build /repo/_build -j16 && ctest --test-dir /repo/_build -j8 --timeout 900",
     source_commits=HOOK_COMMITS, add_only=True),
  engines=[dict(name="lean4-proof+correspondence", path="/verif/tools/check.py", serves_properties=[c["property_id"] for c in checks],
     kind_free_text="Lean 4 theorems about hand-written/generated models (lean/CMacVerif), axiom audit on every run, and a differential correspondence run of the same Lean definitions (compiled drivers) against the real C++ on generated inputs; property oracles evaluated on the implementation supply replays")],
  checks=checks, not_applicable=na,
  notes="See DESIGN.md. known_findings.txt lists genuine defects (fixed: / finding:).")
json.dump(m, open(os.path.join(V, "MANIFEST.json"), "w"), indent=1)
print("wrote MANIFEST.json with", len(checks), "checks,", len(na), "not applicable")
