#!/bin/bash
# seed_queue.sh <PID> <round-tag> <outdir>: verify both variants of a seeding agent's output and run the check on them
PID=$1; TAG=$2; OUT=$3
cd /verif
for v in a b; do
  [ -f $OUT/$v/patch.diff ] || { echo "$PID$TAG$v: no patch"; continue; }
  python3 tools/seed_verify.py $PID $OUT/$v ${PID}${TAG}$v 2>&1 | tail -3
  [ -d /verif/seeded/${PID}${TAG}$v ] && python3 tools/seed_run.py ${PID}${TAG}$v 2>&1 | tail -1 | cut -c1-700
done
